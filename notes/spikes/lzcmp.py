import random, subprocess, sys
sys.path.insert(0,'/verif/work/lz')
import lz4ref
rng=random.Random(int(sys.argv[2])); N=int(sys.argv[1]); cases=[]
def plaintext():
    k=rng.randrange(4)
    n=rng.choice([13,14,20,40,100,300,1000,3000])
    if k==0: return bytes(rng.randrange(4) for _ in range(n))
    if k==1: return bytes([rng.randrange(256)])*n
    if k==2:
        w=bytes(rng.randrange(256) for _ in range(rng.randrange(1,9))); return (w*(n//len(w)+1))[:n]
    return bytes(rng.randrange(256) if rng.random()<0.2 else 65+(i%7) for i in range(n))
for _ in range(N):
    p=plaintext(); e=lz4ref.encode(p,rng,rng.random()<0.5)
    m=rng.randrange(6)
    if m==0: pass
    elif m==1 and e: 
        e=bytearray(e); 
        for _ in range(rng.randrange(1,4)): e[rng.randrange(len(e))]=rng.randrange(256)
        e=bytes(e)
    elif m==2 and len(e)>2: e=e[:rng.randrange(1,len(e))]
    elif m==3: e=e+bytes(rng.randrange(256) for _ in range(rng.randrange(1,8)))
    elif m==4: e=bytes(rng.randrange(256) for _ in range(rng.randrange(1,60)))
    osz=rng.choice([len(p),len(p),len(p)-1,len(p)+1,2*len(p),max(len(e)+1,1)])
    if osz<0: osz=0
    cases.append((osz,e,p))
inp=''.join('%d %s\n'%(o,e.hex()) for o,e,p in cases)
out=subprocess.run(['/verif/work/lz/lzdrv'],input=inp,capture_output=True,text=True)
if out.returncode!=0: print('DRIVER DIED',out.stderr[-1500:]); sys.exit()
res=out.stdout.split('\n'); ok=0; rej=0; bad=0; validrej=0; acc_strict=0; acc_lenient=0; short=0
for (o,e,p),l in zip(cases,res):
    parts=l.split(' '); r=int(parts[0]); got=bytes.fromhex(parts[1]) if len(parts)>1 and parts[1] else b''
    if r<0:
        rej+=1
        # was it a valid shrinking encoding that should have been accepted?
        try:
            d=lz4ref.decode(e)
            if d==p and len(e)<o==len(p) and len(e)>=13: validrej+=1
        except ValueError: pass
        continue
    d,strict=lz4ref.decode_prefix(e)
    if r>o or d[:r]!=got[:r] or len(got)!=r or r>len(d):
        bad+=1
        if bad<6: print('MISMATCH ret',r,'reflen',len(d),'strict',strict,'osz',o,'in',e.hex()[:80])
    else:
        ok+=1
        if r==o:
            if strict and len(d)==r: acc_strict+=1
            else:
                acc_lenient+=1
                if acc_lenient<4: print('lenient accept: ret',r,'== announced; reference strict' ,strict,'reflen',len(d),'in',e.hex()[-24:])
        else: short+=1
print('would-load (ret==announced): strict-valid',acc_strict,'lenient-tail',acc_lenient,'| ret!=announced (face would fail cleanly)',short)
print('cases',N,'prefix-consistent',ok,'rejected',rej,'of which valid shrinking encodings rejected',validrej,'mismatch',bad)
