import sys, json
sys.path.insert(0,'/verif/work/proto')
import gl
from gl import be16,be32
def cmap_4_12(m4, groups12):
    cps=sorted(m4); segs=[]
    for c in cps:
        if segs and segs[-1][1]==c-1 and (m4[c]-c)==segs[-1][2]: segs[-1][1]=c
        else: segs.append([c,c,m4[c]-c])
    if not segs or segs[-1][1]!=0xFFFF: segs.append([0xFFFF,0xFFFF,1])
    n=len(segs)
    sub4=be16(4,16+8*n,0,2*n,0,0,0)+be16(*[s[1] for s in segs])+be16(0)+be16(*[s[0] for s in segs])+be16(*[s[2] for s in segs])+be16(*[0]*n)
    sub12=be16(12,0)+be32(16+12*len(groups12),0,len(groups12))+b''.join(be32(a,b,g) for a,b,g in groups12)
    hdr=be16(0,2)+be16(3,1)+be32(20)+be16(3,10)+be32(20+len(sub4))
    return hdr+sub4+sub12
spec=json.load(open('/verif/work/proto/base_spec.json'))
for g in spec['glyphs']: g['attrs']={int(k):v for k,v in g.get('attrs',{}).items()}
m4={0x61+i:1+i for i in range(6)}; m4[0xFFFF]=7; m4[0xFFFE]=6
groups=[(0x41,0x42,8),(0x10000,0x10002,9),(0x10FFFF,0x10FFFF,11)]
orig=gl.cmap4
gl.cmap4=lambda m: cmap_4_12(m4,groups)
open('/verif/work/proto/cm.ttf','wb').write(gl.build_font(spec))
