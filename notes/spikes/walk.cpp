// spike: structural walker C03/C04/C05 over synthesized fonts; reads strings on stdin; args: font dir
#include <graphite2/Font.h>
#include <graphite2/Segment.h>
#include <cstdio>
#include <cstdlib>
#include <cstring>
#include <cmath>
#include <vector>
#include <set>
#include <map>
static long nviol=0; static char curline[256]; static int curdir;
#define V(...) do{ if(nviol<400){printf("VIOL[%s dir=%d]: ",curline,curdir); printf(__VA_ARGS__); printf("\n");} nviol++; }while(0)
int main(int argc,char**argv){ gr_face*f=gr_make_file_face(argv[1],0); if(!f){puts("NOFACE");return 0;} long segs=0,nulls=0,att=0; char line[256];
 while(fgets(line,sizeof line,stdin)){ size_t n=strlen(line); while(n&&line[n-1]=='\n') line[--n]=0; strcpy(curline,line);
  for(int dir=0;dir<4;dir++){ curdir=dir; gr_segment*s=gr_make_seg(0,f,0,0,gr_utf8,line,n,dir); if(!s){nulls++;continue;} segs++;
    unsigned ns=gr_seg_n_slots(s); std::set<const gr_slot*> seen; std::vector<const gr_slot*> order; const gr_slot*prev=0;
    for(const gr_slot*p=gr_seg_first_slot(s);p;p=gr_slot_next_in_segment(p)){ if(seen.count(p)){V("cycle in next chain");break;} seen.insert(p); order.push_back(p); if(gr_slot_prev_in_segment(p)!=prev) V("prev mismatch at %zu",order.size()-1); prev=p; if(order.size()>ns+5){V("chain too long");break;} }
    if(order.size()!=ns) V("walk %zu != nslots %u",order.size(),ns);
    if(ns&&gr_seg_last_slot(s)!=prev) V("last mismatch");
    if(ns>64*n) V("growth %u > 64*%zu",ns,n);
    std::set<unsigned> idx; for(auto p:order){ unsigned i=gr_slot_index(p); if(i>=ns||idx.count(i)) V("index %u bad/dup ns=%u",i,ns); idx.insert(i); if(!std::isfinite(gr_slot_origin_X(p))||!std::isfinite(gr_slot_origin_Y(p))) V("nonfinite"); int b=gr_slot_before(p),a=gr_slot_after(p),o=gr_slot_original(p); if(b<0||b>=(int)n||a<0||a>=(int)n||o<0||o>=(int)n) V("slot assoc out of range b=%d a=%d o=%d n=%zu",b,a,o,n); }
    std::vector<const gr_slot*> bases;
    for(auto p:order){ const gr_slot*q=p; unsigned steps=0; bool bad=false; while(gr_slot_attached_to(q)){ q=gr_slot_attached_to(q); if(!seen.count(q)){V("parent outside segment");bad=true;break;} if(++steps>ns+1){V("attachment cycle");bad=true;break;} }
      const gr_slot*par=gr_slot_attached_to(p); if(par){ att++; int cnt=0; unsigned k=0; for(const gr_slot*c=gr_slot_first_attachment(par);c&&k<=ns;c=gr_slot_next_sibling_attachment(c),k++){ if(c==p)cnt++; if(gr_slot_attached_to(c)!=par) V("child-chain member has other parent"); } if(k>ns) V("child chain cycle"); if(cnt!=1) V("child occurs %d times in parent's chain",cnt);} else bases.push_back(p); }
    if(!bases.empty()){ std::map<const gr_slot*,int> indeg; for(auto b:bases){ const gr_slot*nx=gr_slot_next_sibling_attachment(b); if(nx){ if(gr_slot_attached_to(nx)) V("base's sibling is an attached slot"); indeg[nx]++; } } int starts=0; const gr_slot*st=0; for(auto b:bases) if(!indeg.count(b)){starts++;st=b;} if(starts!=1) V("base chain starts=%d bases=%zu",starts,bases.size()); else { size_t k=0; std::set<const gr_slot*> bs; for(const gr_slot*b=st;b&&k<=bases.size();b=gr_slot_next_sibling_attachment(b),k++) bs.insert(b); if(bs.size()!=bases.size()||k!=bases.size()) V("base chain covers %zu of %zu (k=%zu)",bs.size(),bases.size(),k);} }
    std::vector<int> cov(n,0); for(auto p:order){int b=gr_slot_before(p),a=gr_slot_after(p); for(int i=b;i<=a&&i<(int)n;i++) if(i>=0) cov[i]=1;}
    if(gr_seg_n_cinfo(s)!=n) V("ncinfo"); for(size_t i=0;i<n&&i<gr_seg_n_cinfo(s);i++){ const gr_char_info*ci=gr_seg_cinfo(s,i); if(ns){ if(!cov[i]) V("char %zu uncovered",i); int b=gr_cinfo_before(ci),a=gr_cinfo_after(ci); if(b<0||b>=(int)ns||a<0||a>=(int)ns) V("cinfo before/after %d/%d out of range ns=%u",b,a,ns);} }
    gr_seg_destroy(s); } }
 printf("segs=%ld nulls=%ld attached=%ld viol=%ld\n",segs,nulls,att,nviol); gr_face_destroy(f); return 0; }
