// spike C17(b): component monitor — random arrangements through ShiftCollider on a real Awami segment
#include <iterator>
#include <graphite2/Font.h>
#include <graphite2/Segment.h>
#include "inc/Segment.h"
#include "inc/Slot.h"
#include "inc/Collider.h"
#include "inc/GlyphCache.h"
#include <cstdio>
#include <cstdlib>
#include <cstring>
#include <cmath>
#include <vector>
using namespace graphite2;
struct Oct { double xi,yi,xa,ya,si,sa,di,da; };
typedef std::vector<std::pair<double,double>> Poly;
static Poly clip(const Poly&p,double a,double b,double c){ Poly o; size_t n=p.size(); for(size_t i=0;i<n;i++){ auto P=p[i],Q=p[(i+1)%n]; double fp=a*P.first+b*P.second-c, fq=a*Q.first+b*Q.second-c; if(fp<=0) o.push_back(P); if((fp<0&&fq>0)||(fp>0&&fq<0)){ double t=fp/(fp-fq); o.push_back({P.first+t*(Q.first-P.first),P.second+t*(Q.second-P.second)});} } return o; }
static double area(const Poly&p){ double a=0; for(size_t i=0;i<p.size();i++){auto P=p[i],Q=p[(i+1)%p.size()]; a+=P.first*Q.second-Q.first*P.second;} return fabs(a)/2; }
static double inter(const Oct&a,const Oct&b){ Oct c={fmax(a.xi,b.xi),fmax(a.yi,b.yi),fmin(a.xa,b.xa),fmin(a.ya,b.ya),fmax(a.si,b.si),fmin(a.sa,b.sa),fmax(a.di,b.di),fmin(a.da,b.da)}; if(c.xi>=c.xa||c.yi>=c.ya||c.si>=c.sa||c.di>=c.da) return 0; Poly p={{-1e7,-1e7},{1e7,-1e7},{1e7,1e7},{-1e7,1e7}}; p=clip(p,-1,0,-c.xi); p=clip(p,1,0,c.xa); p=clip(p,0,-1,-c.yi); p=clip(p,0,1,c.ya); p=clip(p,-1,-1,-c.si); p=clip(p,1,1,c.sa); p=clip(p,-1,1,-c.di); p=clip(p,1,-1,c.da); return p.size()<3?0:area(p); }
static double minproj(const Oct&a,const Oct&b){ return fmin(fmin(fmin(a.xa,b.xa)-fmax(a.xi,b.xi),fmin(a.ya,b.ya)-fmax(a.yi,b.yi)),fmin(fmin(a.sa,b.sa)-fmax(a.si,b.si),fmin(a.da,b.da)-fmax(a.di,b.di))); }
static Oct mk(const BBox&bb,const SlantBox&sb,double px,double py){ return Oct{bb.xi+px,bb.yi+py,bb.xa+px,bb.ya+py,sb.si+px+py,sb.sa+px+py,sb.di+px-py,sb.da+px-py}; }
static unsigned long long rs=88172645463325252ULL;
static unsigned rnd(){ rs^=rs<<13; rs^=rs>>7; rs^=rs<<17; return (unsigned)(rs>>11);}
static float rf(float lo,float hi){ return lo+(hi-lo)*(rnd()%100001)/100000.f; }
int main(int argc,char**argv){ gr_face*f=gr_make_file_face(argv[1],0); if(!f){puts("noface");return 1;} long N=atol(argv[2]); rs^=atol(argv[3])*0x9E3779B97F4A7C15ULL;
  const char*text="بپٹثجچحخسشصضطظعغفقکگلمنہھیے"; const void*e; size_t nc=gr_count_unicode_characters(gr_utf8,text,text+strlen(text),&e); gr_segment*gs=gr_make_seg(0,f,0,0,gr_utf8,text,nc,1); if(!gs){puts("noseg");return 1;} Segment*seg=gs; const GlyphCache&gc=seg->getFace()->glyphs();
  std::vector<Slot*> sl; for(Slot*s=seg->first();s;s=s->next()) if(gc.check(s->gid()) && seg->collisionInfo(s)) sl.push_back(s); printf("slots=%zu hascoll=%d\n",sl.size(),(int)seg->hasCollisionInfo()); if(sl.size()<4||!seg->hasCollisionInfo()) return 1;
  long computed=0,resolved=0,pairs=0,ov=0,lim=0,unres=0; double worst=0;
  for(long it=0;it<N;it++){ Slot*t=sl[rnd()%sl.size()]; SlotCollision*c=seg->collisionInfo(t); int dir=1; // Awami is RTL
    const BBox&tb=gc.getBoundingBBox(t->gid()); float w=tb.xa-tb.xi+50, h=tb.ya-tb.yi+50;
    Position zero(0,0); t->origin(Position(rf(-500,500),rf(-500,500)));   // note: origin() adds m_shift
    Rect L(Position(-rf(0,600),-rf(0,600)),Position(rf(0,600),rf(0,600))); float margin=rf(0,200), mwt=rf(0,50);
    Position off(rf(L.bl.x,L.tr.x),rf(L.bl.y,L.tr.y)); if(rnd()%3==0) off=zero; Position s0(0,0); if(rnd()%3==0){ s0=Position(rf(L.bl.x-off.x,L.tr.x-off.x),rf(L.bl.y-off.y,L.tr.y-off.y)); }
    c->setLimit(L); c->setMargin((uint16)margin); c->setMarginWt((uint16)mwt); c->setOffset(off); c->setShift(s0); c->setSeqClass(0); c->setSeqProxClass(0); c->setSeqOrder(0); c->setExclGlyph(0);
    ShiftCollider coll(0); if(!coll.initSlot(seg,t,c->limit(),c->margin(),c->marginWt(),s0,off,dir,0)) continue;
    int k=1+rnd()%6; std::vector<Slot*> nb; std::vector<Position> np; bool collides=false;
    for(int j=0;j<k;j++){ Slot*n=sl[rnd()%sl.size()]; if(n==t) continue; bool dup=false; for(auto q:nb) if(q==n) dup=true; if(dup) continue; SlotCollision*cn=seg->collisionInfo(n); cn->setFlags(cn->flags() & ~(SlotCollision::COLL_IGNORE|SlotCollision::COLL_ISSPACE)); cn->setExclGlyph(0); cn->setShift(Position(rf(-50,50),rf(-50,50))); cn->setSeqClass(0);
      n->origin(Position(t->origin().x+rf(-2*w,2*w), t->origin().y+rf(-2*h,2*h))); nb.push_back(n); np.push_back(Position(n->origin().x+cn->shift().x,n->origin().y+cn->shift().y));
      if(!coll.mergeSlot(seg,n,cn,cn->shift(),rnd()&1,false,collides,false,0)) { } }
    bool isCol=false; Position s1=coll.resolve(seg,isCol,0); computed++;
    if(std::fabs(s1.x)>=1e38f||std::fabs(s1.y)>=1e38f) continue;
    // limit clause
    { double px=off.x+s0.x,py=off.y+s0.y,qx=off.x+s1.x,qy=off.y+s1.y; bool in0=px>=L.bl.x-0.01&&px<=L.tr.x+0.01&&py>=L.bl.y-0.01&&py<=L.tr.y+0.01; bool in1=qx>=L.bl.x-0.01&&qx<=L.tr.x+0.01&&qy>=L.bl.y-0.01&&qy<=L.tr.y+0.01; if(in0&&!in1&&!isCol){ lim++; if(lim<4) printf("LIMIT off=(%g,%g) s0=(%g,%g) s1=(%g,%g) L=(%g,%g,%g,%g)\n",off.x,off.y,s0.x,s0.y,s1.x,s1.y,L.bl.x,L.bl.y,L.tr.x,L.tr.y);} }
    if(isCol){unres++;continue;} resolved++;
    Oct T=mk(tb,gc.getBoundingSlantBox(t->gid()),t->origin().x+s1.x,t->origin().y+s1.y); double ax=t->origin().x-off.x, ay=t->origin().y-off.y; float m=(float)c->margin(); Rect l2(L.bl-off,L.tr-off);
    for(size_t j=0;j<nb.size();j++){ Slot*n=nb[j]; unsigned short g=n->gid(); const BBox&bb=gc.getBoundingBBox(g); double nx=np[j].x, ny=np[j].y; double sx=nx-ax, sy=ny-ay; bool reach=(sx+bb.xa+m>=l2.bl.x&&sx+bb.xi-m<=l2.tr.x)||(sy+bb.ya+m>=l2.bl.y&&sy+bb.yi-m<=l2.tr.y); if(!reach) continue;
      int ns=gc.numSubBounds(g); for(int q=0;q<(ns?ns:1);q++){ Oct NN= ns? mk(gc.getSubBoundingBBox(g,q),gc.getSubBoundingSlantBox(g,q),nx,ny) : mk(bb,gc.getBoundingSlantBox(g),nx,ny); pairs++; double a=inter(T,NN), mp=minproj(T,NN); if(a>worst)worst=a; if(a>1.0&&mp>0.5){ ov++; if(ov<6) printf("OVERLAP it=%ld area=%g minproj=%g tg=%u ng=%u sub=%d/%d s0=(%g,%g) s1=(%g,%g) off=(%g,%g) L=(%g,%g,%g,%g) m=%g\n",it,a,mp,t->gid(),g,q,ns,s0.x,s0.y,s1.x,s1.y,off.x,off.y,L.bl.x,L.bl.y,L.tr.x,L.tr.y,(double)m);} } }
  }
  printf("arrangements=%ld computed=%ld resolved=%ld unresolved=%ld pairs=%ld OVERLAP=%ld worst=%g LIMIT=%ld\n",N,computed,resolved,unres,pairs,ov,worst,lim); gr_seg_destroy(gs); gr_face_destroy(f); }
