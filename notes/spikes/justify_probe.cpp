#include <graphite2/Font.h>
#include <graphite2/Segment.h>
#include <cstdio>
#include <cstdlib>
#include <cstring>
#include <cmath>
#include <vector>
#include <set>
static unsigned long long rs=88172645463325252ULL;
static unsigned rnd(){ rs^=rs<<13; rs^=rs>>7; rs^=rs<<17; return (unsigned)(rs>>11);}
static int nviol=0;
#define V(...) do{ if(nviol<30){printf("VIOL: " __VA_ARGS__); printf("\n");} nviol++; }while(0)
int main(int argc,char**argv){
  const char*fn=argv[1]; int iters=atoi(argv[2]); rs^=atoi(argv[3])*0x9E3779B97F4A7C15ULL;
  gr_face*f=gr_make_file_face(fn,0); if(!f){puts("noface");return 1;}
  gr_font*font=gr_make_font(20,f);
  std::vector<unsigned> sup; for(unsigned c=0x21;c<0x30000;c++) if(gr_face_is_char_supported(f,c,0)) sup.push_back(c);
  const gr_faceinfo*fi=gr_face_info(f,0); printf("%s justifies=%d line_ends=%d bidi=%d\n",fn,fi->justifies,fi->line_ends,fi->has_bidi_pass);
  long calls=0, lines=0;
  for(int it=0;it<iters;it++){
    int n=2+rnd()%30; std::vector<unsigned> t(n+1);
    for(int i=0;i<n;i++){ unsigned r=rnd()%100; t[i]= r<80? sup[rnd()%sup.size()] : 0x20; }
    t[n]=0; int dir=rnd()%8; const gr_font*fo=(rnd()&1)?font:0;
    gr_segment*s=gr_make_seg(fo,f,0,0,gr_utf32,t.data(),n,dir);
    if(!s) continue;
    std::vector<const gr_slot*> order; for(const gr_slot*p=gr_seg_first_slot(s);p;p=gr_slot_next_in_segment(p)) order.push_back(p);
    if(order.size()<2){gr_seg_destroy(s);continue;}
    // choose break positions
    std::vector<size_t> starts; starts.push_back(0); for(size_t i=1;i<order.size();i++) if(rnd()%6==0) starts.push_back(i);
    for(size_t k=1;k<starts.size();k++) gr_slot_linebreak_before(const_cast<gr_slot*>(order[starts[k]]));
    std::vector<std::vector<unsigned short>> gids(starts.size());
    for(size_t k=0;k<starts.size();k++){ size_t b=starts[k], e=(k+1<starts.size())?starts[k+1]:order.size(); for(size_t i=b;i<e;i++) gids[k].push_back(gr_slot_gid(order[i])); }
    int reps=1+rnd()%2;
    for(int rep=0;rep<reps;rep++)
    for(size_t k=0;k<starts.size();k++){ size_t b=starts[k], e=(k+1<starts.size())?starts[k+1]:order.size();
      double width; switch(rnd()%5){case 0:width=-1;break;case 1:width=0;break;case 2:width=1e6;break;default:width=(rnd()%2000)/3.0;}
      int flags=rnd()%4; const gr_slot*pf=0,*pl=0; if(rnd()%3==0) pf=order[b+rnd()%(e-b)]; if(rnd()%3==0) pl=order[b+rnd()%(e-b)];
      if(pf&&pl){ size_t i1=0,i2=0; for(size_t i=b;i<e;i++){if(order[i]==pf)i1=i; if(order[i]==pl)i2=i;} if(i1>i2) std::swap(pf,pl); }
      float w=gr_seg_justify(s,order[b],fo,width,(gr_justFlags)flags,pf,pl); calls++; lines++;
      if(!std::isfinite(w)) V("nonfinite width it=%d",it);
      // check every line chain
      for(size_t kk=0;kk<starts.size();kk++){ size_t bb=starts[kk], ee=(kk+1<starts.size())?starts[kk+1]:order.size();
        const gr_slot*p=order[bb]; const gr_slot*prev=0; size_t i=bb; bool ok=true;
        if(gr_slot_prev_in_segment(p)!=0){ V("line start has prev it=%d line=%zu after justify line %zu dir=%d",it,kk,k,dir); ok=false;}
        for(;p&&i<ee;p=gr_slot_next_in_segment(p),i++){ if(p!=order[i]){V("order changed it=%d line=%zu pos=%zu justline=%zu dir=%d",it,kk,i-bb,k,dir);ok=false;break;} if(gr_slot_prev_in_segment(p)!=prev){V("prev broken it=%d line=%zu pos=%zu justline=%zu dir=%d",it,kk,i-bb,k,dir);ok=false;break;} prev=p; if(!std::isfinite(gr_slot_origin_X(p))||!std::isfinite(gr_slot_origin_Y(p))) V("nonfinite origin"); if(!fi->justifies && gr_slot_gid(p)!=gids[kk][i-bb]) V("gid changed it=%d",it); }
        if(ok && (i!=ee || p!=0)) V("line length changed it=%d line=%zu got=%zu want=%zu p=%p justline=%zu dir=%d width=%g flags=%d",it,kk,i-bb,ee-bb,(void*)p,k,dir,width,flags);
      }
    }
    gr_seg_destroy(s);
  }
  printf("justify calls=%ld viol=%d\n",calls,nviol);
  gr_font_destroy(font); gr_face_destroy(f); return 0;
}
