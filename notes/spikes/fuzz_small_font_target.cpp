// spike: libFuzzer target over whole-font bytes with exact-size table copies; shapes a few strings
#include <graphite2/Font.h>
#include <graphite2/Segment.h>
#include <cstdint>
#include <cstdlib>
#include <cstring>
struct App{ const uint8_t*d; size_t n; };
static unsigned be32(const uint8_t*p){return (p[0]<<24)|(p[1]<<16)|(p[2]<<8)|p[3];}
static const void* gt(const void*h,unsigned name,size_t*len){ const App*a=(const App*)h; if(a->n<12) return 0; unsigned nt=(a->d[4]<<8)|a->d[5]; if(nt>40||12+16ul*nt>a->n) return 0; for(unsigned i=0;i<nt;i++){ const uint8_t*e=a->d+12+16*i; if(be32(e)==name){ size_t off=be32(e+8),l=be32(e+12); if(off>a->n||l>a->n-off) return 0; void*c=malloc(l?l:1); memcpy(c,a->d+off,l); *len=l; return c; } } return 0; }
static void rt(const void*,const void*p){ free((void*)p); }
extern "C" int LLVMFuzzerTestOneInput(const uint8_t*data,size_t size){ if(size<16) return 0; App a={data,size-1}; unsigned opts=data[size-1]&7; gr_face_ops ops={sizeof(gr_face_ops),gt,rt}; gr_face*f=gr_make_face_with_ops(&a,&ops,opts); if(!f) return 0;
  gr_font*font=gr_make_font(12,f); static const char*txt[]={"abcdefabc","aaaaaaaaaaaaaaaa","fedcba","ab","c",""};
  for(int t=0;t<6;t++) for(int dir=0;dir<2;dir++){ gr_segment*s=gr_make_seg((t&1)?font:0,f,0,0,gr_utf8,txt[t],strlen(txt[t]),dir|((data[size-1]>>3)&6)); if(!s) continue; for(const gr_slot*p=gr_seg_first_slot(s);p;p=gr_slot_next_in_segment(p)){ gr_slot_gid(p); gr_slot_advance_X(p,f,font); gr_slot_attr(p,s,gr_slatUserDefn,0); gr_slot_attr(p,s,gr_slatColShiftx,0);} 
    if(t==0){ const gr_slot*fs=gr_seg_first_slot(s); if(fs) gr_seg_justify(s,fs,font,300,gr_justCompleteLine,0,0);} gr_seg_destroy(s);} 
  unsigned nf=gr_face_n_fref(f); for(unsigned i=0;i<nf&&i<4;i++){ const gr_feature_ref*r=gr_face_fref(f,i); gr_uint16 l=0x409; gr_uint32 len; gr_label_destroy(gr_fref_label(r,&l,gr_utf8,&len)); }
  gr_font_destroy(font); gr_face_destroy(f); return 0; }
