// spike C14(b): lz4::decompress on exact-size heap buffers; stdin lines: "<outsize> <hex input>"; prints ret and output hex (first ret bytes)
#include "inc/Decompressor.h"
#include <cstdio>
#include <cstdlib>
#include <cstring>
#include <vector>
#include <string>
int main(){ static char line[1<<20]; while(fgets(line,sizeof line,stdin)){ size_t osz=strtoul(line,0,10); char*h=strchr(line,' '); if(!h) continue; h++; size_t n=0; while(h[2*n]&&h[2*n]!='\n') n++; n=(strlen(h)-(h[strlen(h)-1]=='\n'))/2; unsigned char*in=(unsigned char*)malloc(n?n:1); for(size_t i=0;i<n;i++){ unsigned v; sscanf(h+2*i,"%2x",&v); in[i]=v; } unsigned char*out=(unsigned char*)malloc(osz?osz:1); memset(out,0xAA,osz);
    int r=lz4::decompress(in,n,out,osz); printf("%d ",r); if(r>0&&(size_t)r<=osz) for(int i=0;i<r;i++) printf("%02x",out[i]); printf("\n"); free(in); free(out);} return 0; }
