#include <graphite2/Font.h>
#include <graphite2/Segment.h>
#include <cstdio>
#include <cstdlib>
#include <cstring>
#include <vector>
#include <thread>
#include <atomic>
static std::atomic<int> calls_after(0); static std::atomic<int> armed(0);
struct MemFont { std::vector<unsigned char> d; };
static unsigned be32(const unsigned char*p){return (p[0]<<24)|(p[1]<<16)|(p[2]<<8)|p[3];}
static const void* gt(const void*h,unsigned name,size_t*len){ if(armed) calls_after++; const MemFont*m=(const MemFont*)h; auto&d=m->d; unsigned nt=(d[4]<<8)|d[5];
  for(unsigned i=0;i<nt;i++){ const unsigned char*e=&d[12+16*i]; if(be32(e)==name){ unsigned off=be32(e+8),l=be32(e+12); *len=l; return &d[off]; } } return 0; }
int main(int argc,char**argv){
  MemFont base; FILE*fp=fopen(argv[1],"rb"); fseek(fp,0,SEEK_END); long sz=ftell(fp); fseek(fp,0,SEEK_SET); base.d.resize(sz); fread(base.d.data(),1,sz,fp); fclose(fp);
  int opts=atoi(argv[2]); int T=atoi(argv[3]);
  gr_face_ops ops={sizeof(gr_face_ops),gt,0}; gr_face*f=gr_make_face_with_ops(&base,&ops,opts); gr_font*font=gr_make_font(16,f); armed=1;
  std::vector<unsigned> sup; for(unsigned c=0x20;c<0x3000;c++) if(gr_face_is_char_supported(f,c,0)) sup.push_back(c);
  std::vector<std::thread> th; std::atomic<long> slots(0);
  for(int t=0;t<T;t++) th.emplace_back([&,t]{ unsigned long long rs=1234567+t*7919; auto rnd=[&]{rs^=rs<<13;rs^=rs>>7;rs^=rs<<17;return (unsigned)(rs>>11);};
     for(int it=0;it<300;it++){ unsigned txt[16]; int n=1+rnd()%15; for(int i=0;i<n;i++) txt[i]=sup[rnd()%sup.size()];
       gr_segment*s=gr_make_seg(font,f,0,0,gr_utf32,txt,n,rnd()%2); for(const gr_slot*p=gr_seg_first_slot(s);p;p=gr_slot_next_in_segment(p)){slots+=gr_slot_gid(p)>0; gr_slot_advance_X(p,f,font);} gr_seg_destroy(s);
       if(it%50==0){ gr_feature_val*fv=gr_face_featureval_for_lang(f,0); if(gr_face_n_fref(f)){const gr_feature_ref*r=gr_face_fref(f,0); unsigned short l=0x409; unsigned len; void*lab=gr_fref_label(r,&l,gr_utf8,&len); gr_label_destroy(lab);} gr_featureval_destroy(fv);} } });
  for(auto&t:th)t.join();
  printf("slots=%ld get_table calls after make_face=%d\n",(long)slots,(int)calls_after);
  gr_font_destroy(font); gr_face_destroy(f);
}
