import struct, random
def decode(src, maxout=None):
    out=bytearray(); i=0; n=len(src)
    while i<n:
        tok=src[i]; i+=1
        ll=tok>>4
        if ll==15:
            while True:
                if i>=n: raise ValueError('trunc litlen')
                b=src[i]; i+=1; ll+=b
                if b!=255: break
        if i+ll>n: raise ValueError('trunc literals')
        out+=src[i:i+ll]; i+=ll
        if i>=n: break
        if i+2>n: raise ValueError('trunc offset')
        off=src[i]|(src[i+1]<<8); i+=2
        ml=tok&15
        if ml==15:
            while True:
                if i>=n: raise ValueError('trunc matchlen')
                b=src[i]; i+=1; ml+=b
                if b!=255: break
        ml+=4
        if off==0 or off>len(out): raise ValueError('bad offset')
        for _ in range(ml): out.append(out[-off])
        if maxout is not None and len(out)>maxout: raise ValueError('overflow')
    return bytes(out)
def decode_prefix(src):
    # decode as far as the format allows; returns (output so far, True if the whole input was a well-formed block)
    out=bytearray(); i=0; n=len(src)
    try:
        while i<n:
            tok=src[i]; i+=1; ll=tok>>4
            if ll==15:
                while True:
                    if i>=n: raise ValueError
                    b=src[i]; i+=1; ll+=b
                    if b!=255: break
            if i+ll>n: raise ValueError
            out+=src[i:i+ll]; i+=ll
            if i>=n: return bytes(out),True
            if i+2>n: raise ValueError
            off=src[i]|(src[i+1]<<8); i+=2; ml=tok&15
            if ml==15:
                while True:
                    if i>=n: raise ValueError
                    b=src[i]; i+=1; ml+=b
                    if b!=255: break
            ml+=4
            if off==0 or off>len(out): raise ValueError
            for _ in range(ml): out.append(out[-off])
        return bytes(out),True
    except ValueError:
        return bytes(out),False
def encode(data, rng=None, greedy=True):
    # valid LZ4 block: last 5 bytes literals, last match starts >=12 bytes before end
    n=len(data); out=bytearray(); i=0; anchor=0; table={}
    def emit(lit, off, ml):
        ll=len(lit); tok=(min(ll,15)<<4)|(min(ml-4,15) if ml else 0); out.append(tok)
        if ll>=15:
            r=ll-15
            while r>=255: out.append(255); r-=255
            out.append(r)
        out.extend(lit)
        if ml:
            out.extend(struct.pack('<H',off))
            if ml-4>=15:
                r=ml-4-15
                while r>=255: out.append(255); r-=255
                out.append(r)
    while i+4<=n-12+0 and i<n-12:
        key=data[i:i+4]; cand=list(table.get(key,[])); table.setdefault(key,[]).append(i)
        use=None
        if cand:
            cs=[c for c in cand if i-c<=65535]
            if cs:
                c=cs[-1] if (greedy or rng is None) else rng.choice(cs)
                if rng is None or greedy or rng.random()<0.8: use=c
        if use is None: i+=1; continue
        ml=4
        while i+ml<n-5 and data[use+ml]==data[i+ml]: ml+=1
        if rng is not None and not greedy and ml>4: ml=rng.randrange(4,ml+1)
        emit(data[anchor:i], i-use, ml); i+=ml; anchor=i
    emit(data[anchor:], 0, 0)
    return bytes(out)
if __name__=='__main__':
    import sys
    d=open(sys.argv[1],'rb').read(); e=encode(d); assert decode(e)==d; print(len(d),len(e))
