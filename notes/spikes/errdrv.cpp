// spike: apply patch sets (lines "off=val off=val ...") to a base font, load + shape, print last error code
#include <graphite2/Font.h>
#include <graphite2/Segment.h>
#include <cstdio>
#include <cstdlib>
#include <cstring>
#include <vector>
static int lasterr=0; extern "C" void verif_err(int e,unsigned){ lasterr=e; }
struct App{ std::vector<unsigned char> d; };
static unsigned be32(const unsigned char*p){return (p[0]<<24)|(p[1]<<16)|(p[2]<<8)|p[3];}
static const void* gt(const void*h,unsigned name,size_t*len){ const App*a=(const App*)h; auto&d=a->d; unsigned nt=(d[4]<<8)|d[5]; for(unsigned i=0;i<nt;i++){ const unsigned char*e=&d[12+16*i]; if(be32(e)==name){ unsigned off=be32(e+8),l=be32(e+12); if(off>d.size()||l>d.size()-off) return 0; void*c=malloc(l?l:1); memcpy(c,&d[off],l); *len=l; return c; } } return 0; }
static void rt(const void*,const void*p){ free((void*)p); }
int main(int argc,char**argv){ App base; FILE*fp=fopen(argv[1],"rb"); fseek(fp,0,SEEK_END); long sz=ftell(fp); fseek(fp,0,SEEK_SET); base.d.resize(sz); fread(base.d.data(),1,sz,fp); fclose(fp); const char*text=argv[2]; char line[4096];
  while(fgets(line,sizeof line,stdin)){ App a=base; for(char*t=strtok(line," \n");t;t=strtok(0," \n")){ unsigned off,val; if(sscanf(t,"%u=%u",&off,&val)==2&&off<a.d.size()) a.d[off]=val; }
    lasterr=0; gr_face_ops ops={sizeof(gr_face_ops),gt,rt}; gr_face*f=gr_make_face_with_ops(&a,&ops,atoi(argv[3])); if(f){ gr_segment*s=gr_make_seg(0,f,0,0,gr_utf8,text,strlen(text),0); printf("OK %s\n",s?"seg":"nullseg"); if(s) gr_seg_destroy(s); gr_face_destroy(f);} else printf("ERR %d\n",lasterr); fflush(stdout);} return 0; }
