#include <graphite2/Font.h>
#include <graphite2/Segment.h>
#include <cstdio>
#include <cstdlib>
#include <cstring>
#include <cmath>
#include <vector>
#include <set>
#include <map>
#include <string>
static unsigned long long rs=88172645463325252ULL;
static unsigned rnd(){ rs^=rs<<13; rs^=rs>>7; rs^=rs<<17; return (unsigned)(rs>>11);}
static int nviol=0;
#define V(...) do{ if(nviol<40){printf("VIOL: " __VA_ARGS__); printf("\n");} nviol++; }while(0)
int main(int argc,char**argv){
  const char*fn=argv[1]; int iters=atoi(argv[2]); rs^=atoi(argv[3])*0x9E3779B97F4A7C15ULL;
  gr_face*f=gr_make_file_face(fn,0); if(!f){puts("noface");return 1;}
  gr_font*font=gr_make_font(20,f);
  std::vector<unsigned> sup; for(unsigned c=1;c<0x30000;c++) if(gr_face_is_char_supported(f,c,0)) sup.push_back(c);
  printf("font %s glyphs=%u sup=%zu\n",fn,gr_face_n_glyphs(f),sup.size());
  unsigned ng=gr_face_n_glyphs(f);
  size_t maxslots=0, totalslots=0, nseg=0, nnull=0, natt=0;
  for(int it=0;it<iters;it++){
    int n=rnd()%24; std::vector<unsigned> t(n+1);
    for(int i=0;i<n;i++){ unsigned r=rnd()%100; t[i]= r<90? sup[rnd()%sup.size()] : (r<95? 0x20 : (rnd()%0x10FFFF)+1); if(t[i]>=0xD800&&t[i]<0xE000) t[i]=0x41;}
    t[n]=0; int dir=rnd()%8;
    gr_segment*s=gr_make_seg((rnd()&1)?font:0,f,0,0,gr_utf32,t.data(),n,dir);
    if(!s){nnull++;continue;}
    nseg++;
    unsigned ns=gr_seg_n_slots(s), nc=gr_seg_n_cinfo(s);
    if(nc!=(unsigned)n) V("ncinfo %u != %d",nc,n);
    // C03
    std::set<const gr_slot*> seen; std::vector<const gr_slot*> order; const gr_slot*prev=0; bool bad=false;
    for(const gr_slot*p=gr_seg_first_slot(s);p;p=gr_slot_next_in_segment(p)){
      if(seen.count(p)){V("cycle in next chain it=%d",it);bad=true;break;} seen.insert(p); order.push_back(p);
      if(gr_slot_prev_in_segment(p)!=prev) V("prev mismatch it=%d idx=%zu dir=%d",it,order.size()-1,dir);
      prev=p; if(order.size()>ns+5){V("too long");bad=true;break;}
    }
    if(order.size()!=ns) V("walk %zu != nslots %u it=%d dir=%d n=%d",order.size(),ns,it,dir,n);
    if(ns && gr_seg_last_slot(s)!=prev) V("last mismatch it=%d dir=%d",it,dir);
    if(ns> (unsigned)n*64) V("growth");
    std::set<unsigned> idx; for(auto p:order){ unsigned i=gr_slot_index(p); if(i>=ns||idx.count(i)) V("index %u bad/dup ns=%u it=%d dir=%d",i,ns,it,dir); idx.insert(i);
      if(!std::isfinite(gr_slot_origin_X(p))||!std::isfinite(gr_slot_origin_Y(p))||!std::isfinite(gr_slot_advance_X(p,f,font))) V("nonfinite");
      if(gr_slot_gid(p)>=ng) V("gid %u >= %u",gr_slot_gid(p),ng);
      int b=gr_slot_before(p),a=gr_slot_after(p),o=gr_slot_original(p);
      if(b<0||b>=n||a<0||a>=n||o<0||o>=n) V("slot assoc out of range b=%d a=%d o=%d n=%d it=%d dir=%d",b,a,o,n,it,dir);
    }
    // C04
    std::vector<const gr_slot*> bases;
    for(auto p:order){ const gr_slot*q=p; int steps=0; while(gr_slot_attached_to(q)){ q=gr_slot_attached_to(q); if(!seen.count(q)){V("parent outside seg");break;} if(++steps>ns+1){V("att cycle");break;} }
      const gr_slot*par=gr_slot_attached_to(p);
      if(par){ natt++; int cnt=0,k=0; for(const gr_slot*c=gr_slot_first_attachment(par);c&&k<=(int)ns;c=gr_slot_next_sibling_attachment(c),k++){ if(c==p)cnt++; if(gr_slot_attached_to(c)!=par) V("child chain member has other parent it=%d",it);} if(cnt!=1) V("child occurs %d times in parent's chain it=%d dir=%d",cnt,it,dir);} else bases.push_back(p);
    }
    if(!bases.empty()){ // base chain: find the start = base which is nobody's sibling
      std::map<const gr_slot*,int> indeg; for(auto b:bases){ const gr_slot*nx=gr_slot_next_sibling_attachment(b); if(nx){ if(gr_slot_attached_to(nx)) V("base sibling is attached"); indeg[nx]++; } }
      int starts=0; const gr_slot*st=0; for(auto b:bases) if(!indeg.count(b)){starts++;st=b;}
      if(starts!=1) V("base chain starts=%d bases=%zu it=%d dir=%d",starts,bases.size(),it,dir);
      else { size_t k=0; std::set<const gr_slot*> bs; for(const gr_slot*b=st;b&&k<=bases.size();b=gr_slot_next_sibling_attachment(b),k++) bs.insert(b); if(bs.size()!=bases.size()||k!=bases.size()) V("base chain covers %zu/%zu k=%zu it=%d dir=%d",bs.size(),bases.size(),k,it,dir); }
    }
    // C05
    std::vector<int> cov(n,0); for(auto p:order){int b=gr_slot_before(p),a=gr_slot_after(p); for(int i=b;i<=a&&i<n;i++) if(i>=0) cov[i]=1;}
    size_t lastbase=0;
    for(int i=0;i<n;i++){ const gr_char_info*ci=gr_seg_cinfo(s,i); if(gr_cinfo_unicode_char(ci)!=t[i]) V("char mismatch"); if(gr_cinfo_base(ci)!=(size_t)i) V("base mismatch");
       if(ns){ if(!cov[i]) V("char %d uncovered it=%d dir=%d n=%d ns=%u",i,it,dir,n,ns); int b=gr_cinfo_before(ci),a=gr_cinfo_after(ci); if(b<0||b>=(int)ns||a<0||a>=(int)ns) V("cinfo before/after %d/%d out of range ns=%u it=%d dir=%d",b,a,ns,it,dir);} }
    if(ns>maxslots)maxslots=ns; totalslots+=ns;
    gr_seg_destroy(s);
  }
  printf("segs=%zu null=%zu maxslots=%zu total=%zu attached=%zu viol=%d\n",nseg,nnull,maxslots,totalslots,natt,nviol);
  gr_font_destroy(font); gr_face_destroy(f); return nviol?1:0;
}
