#include <graphite2/Font.h>
#include <graphite2/Segment.h>
#include <cstdio>
#include <cstdlib>
#include <cstring>
#include <vector>
#include <string>
#include <unistd.h>
#include <sys/wait.h>
typedef std::vector<unsigned char> bytes;
struct MemFont { bytes d; };
static unsigned be32(const unsigned char*p){return (p[0]<<24)|(p[1]<<16)|(p[2]<<8)|p[3];}
static const void* gt(const void*h,unsigned name,size_t*len){ const MemFont*m=(const MemFont*)h; const bytes&d=m->d; if(d.size()<12) return 0; unsigned nt=(d[4]<<8)|d[5]; if(12+16u*nt>d.size()) return 0;
  for(unsigned i=0;i<nt;i++){ const unsigned char*e=&d[12+16*i]; if(be32(e)==name){ unsigned off=be32(e+8),l=be32(e+12); if(off>d.size()||l>d.size()-off) return 0; void*c=malloc(l?l:1); memcpy(c,&d[off],l); *len=l; return c; } } return 0; }
static void rt(const void*,const void*p){ free((void*)p); }
static unsigned long long rs=88172645463325252ULL;
static unsigned rnd(){ rs^=rs<<13; rs^=rs>>7; rs^=rs<<17; return (unsigned)(rs>>11);}
static int one(const MemFont&mf,const bytes&text,int opts){
  gr_face_ops ops={sizeof(gr_face_ops),gt,rt};
  gr_face*f=gr_make_face_with_ops(&mf,&ops,opts); if(!f) return 0;
  gr_font*font=gr_make_font(12,f);
  for(int dir=0;dir<4;dir++){
   const void*err; size_t n=gr_count_unicode_characters(gr_utf8,text.data(),text.data()+text.size(),&err);
   gr_segment*s=gr_make_seg(font,f,0,0,gr_utf8,text.data(),n,dir);
   if(s){ for(const gr_slot*p=gr_seg_first_slot(s);p;p=gr_slot_next_in_segment(p)){gr_slot_gid(p);gr_slot_advance_X(p,f,font); for(int a=0;a<60;a++) gr_slot_attr(p,s,(gr_attrCode)a,0);} gr_seg_destroy(s);} }
  unsigned nf=gr_face_n_fref(f); for(unsigned i=0;i<nf;i++){const gr_feature_ref*r=gr_face_fref(f,i); unsigned short l=0x409; unsigned len; void*lab=gr_fref_label(r,&l,gr_utf8,&len); gr_label_destroy(lab); for(unsigned k=0;k<gr_fref_n_values(r);k++){ l=0x409; lab=gr_fref_value_label(r,k,&l,gr_utf16,&len); gr_label_destroy(lab);} }
  gr_font_destroy(font); gr_face_destroy(f); return 1;
}
int main(int argc,char**argv){
  MemFont base; FILE*fp=fopen(argv[1],"rb"); fseek(fp,0,SEEK_END); long sz=ftell(fp); fseek(fp,0,SEEK_SET); base.d.resize(sz); fread(base.d.data(),1,sz,fp); fclose(fp);
  bytes text; fp=fopen(argv[2],"rb"); text.resize(300); size_t got=fread(text.data(),1,300,fp); fclose(fp); text.resize(got); while(!text.empty() && (text.back()&0xC0)==0x80) text.pop_back(); if(!text.empty()&&text.back()>=0xC0) text.pop_back(); text.push_back(0);
  int N=atoi(argv[3]); rs^=atoi(argv[4])*0x9E3779B97F4A7C15ULL;
  // locate Silf, Glat, Gloc, Feat, Sill, cmap, name tables
  std::vector<std::pair<unsigned,unsigned>> rng; unsigned nt=(base.d[4]<<8)|base.d[5];
  for(unsigned i=0;i<nt;i++){ const unsigned char*e=&base.d[12+16*i]; std::string tag((const char*)e,4); if(tag=="Silf"||tag=="Glat"||tag=="Gloc"||tag=="Feat"||tag=="Sill"||tag=="cmap"||tag=="name"||tag=="head"||tag=="hhea"||tag=="maxp"||tag=="loca"||tag=="hmtx") rng.push_back({be32(e+8),be32(e+12)}); }
  int loaded=0, crashed=0;
  for(int it=0;it<N;it++){
    MemFont m=base; int nm=1+rnd()%3; char desc[200]=""; 
    for(int k=0;k<nm;k++){ auto r=rng[rnd()%rng.size()]; unsigned bias = (rnd()%3==0)? rnd()%(r.second<2000?r.second:2000) : rnd()%r.second; unsigned off=r.first+bias; unsigned char v; switch(rnd()%5){case 0:v=0;break;case 1:v=0xff;break;case 2:v=m.d[off]+1;break;case 3:v=m.d[off]^(1<<(rnd()%8));break;default:v=rnd();} m.d[off]=v; sprintf(desc+strlen(desc),"%u=%u ",off,v);}
    fflush(stdout);
    pid_t pid=fork(); if(pid==0){ alarm(20); int l=one(m,text,rnd()%8); _exit(l?10:11);} int st; waitpid(pid,&st,0);
    if(WIFEXITED(st)&&WEXITSTATUS(st)==10) loaded++; else if(WIFEXITED(st)&&WEXITSTATUS(st)==11){} else { crashed++; printf("CRASH it=%d st=%x muts=%s\n",it,st,desc);} 
  }
  printf("N=%d loaded=%d crashed=%d\n",N,loaded,crashed); return 0;
}
