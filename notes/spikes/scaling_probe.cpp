#include <graphite2/Font.h>
#include <graphite2/Segment.h>
#include <cstdio>
#include <cstdlib>
#include <cstring>
#include <cmath>
#include <vector>
static unsigned long long rs=88172645463325252ULL;
static unsigned rnd(){ rs^=rs<<13; rs^=rs>>7; rs^=rs<<17; return (unsigned)(rs>>11);}
int main(int argc,char**argv){ gr_face*f=gr_make_file_face(argv[1],0); if(!f){puts("noface");return 1;}
  const gr_faceinfo*fi=gr_face_info(f,0); float upem=fi->upem;
  std::vector<unsigned> sup; for(unsigned c=0x20;c<0x30000;c++) if(gr_face_is_char_supported(f,c,0)) sup.push_back(c);
  float ppms[]={0.5f,1,7.3f,12,16,96.5f,upem,1000,4096,0.001f}; double worst=0; long cmp=0, structdiff=0; double worstabs=0;
  for(int it=0;it<3000;it++){ int n=1+rnd()%40; std::vector<unsigned> t(n+1); for(int i=0;i<n;i++) t[i]=(rnd()%10)?sup[rnd()%sup.size()]:0x20; t[n]=0; int dir=rnd()%8; float ppm=ppms[rnd()%10]; gr_font*font=gr_make_font(ppm,f); float s=ppm/upem;
    gr_segment*a=gr_make_seg(0,f,0,0,gr_utf32,t.data(),n,dir),*b=gr_make_seg(font,f,0,0,gr_utf32,t.data(),n,dir);
    if(!a||!b){ if(a)gr_seg_destroy(a); if(b)gr_seg_destroy(b); gr_font_destroy(font); continue;}
    unsigned ns=gr_seg_n_slots(a); if(ns!=gr_seg_n_slots(b)){structdiff++;}
    else { const gr_slot*p=gr_seg_first_slot(a),*q=gr_seg_first_slot(b); int k=2*ns+4; double M=fabs(gr_seg_advance_X(a)); for(const gr_slot*z=gr_seg_first_slot(a);z;z=gr_slot_next_in_segment(z)){ M=fmax(M,fabs(gr_slot_origin_X(z))); M=fmax(M,fabs(gr_slot_origin_Y(z))); M=fmax(M,fabs(gr_slot_advance_X(z,f,0))); }
      for(;p&&q;p=gr_slot_next_in_segment(p),q=gr_slot_next_in_segment(q)){ if(gr_slot_gid(p)!=gr_slot_gid(q)) structdiff++;
        float va[4]={gr_slot_origin_X(p),gr_slot_origin_Y(p),gr_slot_advance_X(p,f,0),gr_slot_advance_Y(p,f,0)}; float vb[4]={gr_slot_origin_X(q),gr_slot_origin_Y(q),gr_slot_advance_X(q,f,font),gr_slot_advance_Y(q,f,font)};
        for(int j=0;j<4;j++){ double exp=(double)s*va[j]; double err=fabs(vb[j]-exp); double tol=8.0*k*1.1920929e-7*s*fmax(M,(double)upem); double r=err/tol; if(r>worst){worst=r;} if(err>worstabs)worstabs=err; cmp++; } }
      { double exp=(double)s*gr_seg_advance_X(a); double err=fabs(gr_seg_advance_X(b)-exp); double tol=8.0*k*1.1920929e-7*s*fmax(M,(double)upem); if(err/tol>worst)worst=err/tol; }
    }
    gr_seg_destroy(a); gr_seg_destroy(b); gr_font_destroy(font);} 
  printf("%s upem=%g comparisons=%ld structdiff=%ld worst err/tol=%.4f worst abs err=%g\n",argv[1],upem,cmp,structdiff,worst,worstabs); gr_face_destroy(f);} 
