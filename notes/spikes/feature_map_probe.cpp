// spike C18: feature-value map isolation; model: per-feature value array; max from settings reported by API cross-checked against argv-provided spec when synthesized
#include <graphite2/Font.h>
#include <cstdio>
#include <cstdlib>
#include <cstring>
#include <vector>
static unsigned long long rs=88172645463325252ULL;
static unsigned rnd(){ rs^=rs<<13; rs^=rs>>7; rs^=rs<<17; return (unsigned)(rs>>11);}
int main(int argc,char**argv){ gr_face*f=gr_make_file_face(argv[1],0); if(!f){puts("noface");return 1;} rs^=atol(argv[2])*0x9E3779B97F4A7C15ULL;
  unsigned nf=gr_face_n_fref(f); std::vector<const gr_feature_ref*> fr; std::vector<unsigned> mx; std::vector<bool> unb;
  for(unsigned i=0;i<nf;i++){ const gr_feature_ref*r=gr_face_fref(f,i); fr.push_back(r); unsigned nv=gr_fref_n_values(r); unsigned m=0; for(unsigned k=0;k<nv;k++){ unsigned v=(unsigned short)gr_fref_value(r,k); if(v>m)m=v;} mx.push_back(nv?m:0xFFFF); unb.push_back(nv==0); }
  long ops=0,viol=0,succ=0,fail=0;
  for(int h=0;h<300;h++){ gr_feature_val*fv=gr_face_featureval_for_lang(f,0); std::vector<unsigned> model(nf); for(unsigned i=0;i<nf;i++) model[i]=gr_fref_feature_value(fr[i],fv);
    for(int o=0;o<200&&nf;o++){ ops++; unsigned i=rnd()%nf; unsigned v; switch(rnd()%8){case 0:v=0;break;case 1:v=mx[i];break;case 2:v=mx[i]+1;break;case 3:v=mx[i]?mx[i]-1:0;break;case 4:v=0xFFFF;break;case 5:v=0x8000;break;default:v=rnd()&0xFFFF;} v&=0xFFFF;
      int ok=gr_fref_set_feature_value(fr[i],(gr_uint16)v,fv); bool want=v<=mx[i]; if((ok!=0)!=want){ viol++; if(viol<6) printf("set(%08x,%u) returned %d, max=%u\n",gr_fref_id(fr[i]),v,ok,mx[i]); }
      if(ok){ model[i]=v; succ++; } else fail++;
      for(unsigned j=0;j<nf;j++){ unsigned g=gr_fref_feature_value(fr[j],fv); if(g!=model[j]){ viol++; if(viol<6) printf("after set(%08x,%u ok=%d): feature %08x reads %u want %u\n",gr_fref_id(fr[i]),v,ok,gr_fref_id(fr[j]),g,model[j]); model[j]=g; } }
      if(rnd()%20==0){ gr_feature_val*c=gr_featureval_clone(fv); for(unsigned j=0;j<nf;j++) if(gr_fref_feature_value(fr[j],c)!=model[j]){viol++; if(viol<6) printf("clone differs\n");} gr_featureval_destroy(fv); fv=c; } }
    gr_featureval_destroy(fv); }
  printf("%s feats=%u ops=%ld success=%ld refused=%ld viol=%ld\n",argv[1],nf,ops,succ,fail,viol); gr_face_destroy(f); }
