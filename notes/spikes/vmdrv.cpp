// spike: run straight-line VM programs (hex per line on stdin) through Machine::Code, print "status value" per line
#include <graphite2/Font.h>
#include <graphite2/Segment.h>
#include "inc/Code.h"
#include "inc/Rule.h"
#include "inc/Silf.h"
#include "inc/Face.h"
#include "inc/Segment.h"
#include <cstdio>
#include <cstdlib>
#include <cstring>
#include <vector>
using namespace graphite2; using namespace vm;
int main(int argc,char**argv){
  gr_face*face=gr_make_file_face(argv[1],0); if(!face){puts("NOFACE");return 2;}
  gr_segment*gseg=gr_make_seg(0,face,0,0,gr_utf8,"a",1,0); if(!gseg){puts("NOSEG");return 2;}
  Segment&seg=*gseg; Silf silf;
  char line[8192]; while(fgets(line,sizeof line,stdin)){ std::vector<byte> prog; for(char*p=line;p[0]&&p[1]&&p[0]!='\n';p+=2){ unsigned v; sscanf(p,"%2x",&v); prog.push_back((byte)v);} if(prog.empty()){puts("EMPTY");continue;}
    Machine::Code code(true,&prog[0],&prog[0]+prog.size(),0,1,silf,*face,PASS_TYPE_UNKNOWN);
    if(!code){ printf("LOADFAIL %d\n",(int)code.status()); continue; }
    SlotMap smap(seg,0,0); Machine m(smap); smap.reset(*seg.first(),0); smap.pushSlot(seg.first()); slotref*map=smap.begin();
    int32 ret=code.run(m,map); printf("%d %d\n",(int)m.status(),(int)ret); }
  gr_seg_destroy(gseg); gr_face_destroy(face); return 0; }
