#include <graphite2/Font.h>
#include "inc/Face.h"
#include "inc/CmapCache.h"
#include <cstdio>
#include <cstdlib>
using namespace graphite2;
int main(int argc,char**argv){ gr_face*a=gr_make_file_face(argv[1],atoi(argv[2])); if(!a){puts("noface");return 1;} for(unsigned u=0;u<0x110000;u++){ unsigned g=a->cmap()[u]; if(g) printf("%u %u\n",u,g);} gr_face_destroy(a); }
