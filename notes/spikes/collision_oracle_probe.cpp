#include <graphite2/Font.h>
#include <graphite2/Segment.h>
#include "inc/Segment.h"
#include "inc/Slot.h"
#include "inc/Collider.h"
#include "inc/GlyphCache.h"
#include <cstdio>
#include <cstdlib>
#include <cstring>
#include <cmath>
#include <vector>
using namespace graphite2;
struct Oct { double xi,yi,xa,ya,si,sa,di,da; };
typedef std::vector<std::pair<double,double>> Poly;
static Poly clip(const Poly&p,double a,double b,double c){ // keep a*x+b*y<=c
  Poly o; size_t n=p.size(); for(size_t i=0;i<n;i++){ auto P=p[i],Q=p[(i+1)%n]; double fp=a*P.first+b*P.second-c, fq=a*Q.first+b*Q.second-c; if(fp<=0) o.push_back(P); if((fp<0&&fq>0)||(fp>0&&fq<0)){ double t=fp/(fp-fq); o.push_back({P.first+t*(Q.first-P.first),P.second+t*(Q.second-P.second)});} } return o; }
static double area(const Poly&p){ double a=0; for(size_t i=0;i<p.size();i++){auto P=p[i],Q=p[(i+1)%p.size()]; a+=P.first*Q.second-Q.first*P.second;} return fabs(a)/2; }
static Poly octpoly(const Oct&o){ Poly p={{-1e7,-1e7},{1e7,-1e7},{1e7,1e7},{-1e7,1e7}}; p=clip(p,-1,0,-o.xi); p=clip(p,1,0,o.xa); p=clip(p,0,-1,-o.yi); p=clip(p,0,1,o.ya); p=clip(p,-1,-1,-o.si); p=clip(p,1,1,o.sa); p=clip(p,-1,1,-o.di); p=clip(p,1,-1,o.da); return p; }
static double inter(const Oct&a,const Oct&b){ Oct c={fmax(a.xi,b.xi),fmax(a.yi,b.yi),fmin(a.xa,b.xa),fmin(a.ya,b.ya),fmax(a.si,b.si),fmin(a.sa,b.sa),fmax(a.di,b.di),fmin(a.da,b.da)}; if(c.xi>=c.xa||c.yi>=c.ya||c.si>=c.sa||c.di>=c.da) return 0; Poly p=octpoly(c); return p.size()<3?0:area(p); }
static double minproj(const Oct&a,const Oct&b){ return fmin(fmin(fmin(a.xa,b.xa)-fmax(a.xi,b.xi),fmin(a.ya,b.ya)-fmax(a.yi,b.yi)),fmin(fmin(a.sa,b.sa)-fmax(a.si,b.si),fmin(a.da,b.da)-fmax(a.di,b.di))); }
static Oct mk(const BBox&bb,const SlantBox&sb,double px,double py){ return Oct{bb.xi+px,bb.yi+py,bb.xa+px,bb.ya+py,sb.si+px+py,sb.sa+px+py,sb.di+px-py,sb.da+px-py}; }
struct XC : ShiftCollider { XC():ShiftCollider(0){} void dumpz(){ for(int i=0;i<4;i++){ printf("    axis %d:",i); for(Zones::const_iterator z=_ranges[i].begin();z!=_ranges[i].end();++z) printf(" [%g,%g sm=%g smx=%g c=%g]",z->x,z->xm,z->sm,z->smx,z->c); printf("\n"); } } };
static std::vector<const Slot*> nbrs; static std::vector<Position> npos; static Segment*curseg=0;
static long steps=0,computed=0,resolved=0,judged_pairs=0,viol=0,limviol=0,outdom=0,startout=0,skipreach=0; static double worstarea=0;
extern "C" void verif_nbr(const void*n){ nbrs.push_back((const Slot*)n); npos.push_back(((const Slot*)n)->origin()); }
extern "C" void verif_step(const void*seg_,const void*slot_,int collides,int isCol,float s0x,float s0y,int dir,int comp){
  Segment*seg=(Segment*)seg_; Slot*t=(Slot*)slot_; steps++; SlotCollision*c=seg->collisionInfo(t); const GlyphCache&gc=seg->getFace()->glyphs();
  Rect L=c->limit(); Position o=c->offset(), s1=c->shift(); bool rtl=dir&1; bool wf=L.bl.x<=L.tr.x&&L.bl.y<=L.tr.y; bool dom = rtl || (L.bl.x==-L.tr.x);
  if(comp){ computed++;
    if(wf){ if(!dom) outdom++; else { double px=o.x+s0x,py=o.y+s0y,qx=o.x+s1.x,qy=o.y+s1.y; bool in0=px>=L.bl.x-0.01&&px<=L.tr.x+0.01&&py>=L.bl.y-0.01&&py<=L.tr.y+0.01; bool in1=qx>=L.bl.x-0.01&&qx<=L.tr.x+0.01&&qy>=L.bl.y-0.01&&qy<=L.tr.y+0.01; if(!in0) startout++; else if(!in1){ limviol++; if(limviol<4) printf("LIMIT: off=(%g,%g) s0=(%g,%g) s1=(%g,%g) L=(%g,%g,%g,%g) dir=%d\n",o.x,o.y,s0x,s0y,s1.x,s1.y,L.bl.x,L.bl.y,L.tr.x,L.tr.y,dir);} } }
    if(!isCol){ resolved++; unsigned short tg=t->gid(); if(gc.check(tg)&&dom){ Oct T=mk(gc.getBoundingBBox(tg),gc.getBoundingSlantBox(tg),t->origin().x+s1.x,t->origin().y+s1.y);
       double ax=t->origin().x-o.x, ay=t->origin().y-o.y; float m=c->margin();
       for(size_t ni=0;ni<nbrs.size();ni++){ const Slot*n=nbrs[ni]; SlotCollision*cn=seg->collisionInfo(n); if(cn->ignore()) continue; unsigned short g=n->gid(); if(!gc.check(g)) continue; double nx=npos[ni].x+cn->shift().x, ny=npos[ni].y+cn->shift().y; const BBox&bb=gc.getBoundingBBox(g);
          double sx=nx-ax, sy=ny-ay; Rect l2(L.bl-o, L.tr-o); bool reach=(sx+bb.xa+m>=l2.bl.x&&sx+bb.xi-m<=l2.tr.x)||(sy+bb.ya+m>=l2.bl.y&&sy+bb.yi-m<=l2.tr.y); if(!reach){skipreach++;continue;}
          int ns=gc.numSubBounds(g); for(int j=0;j<(ns?ns:1);j++){ Oct N= ns? mk(gc.getSubBoundingBBox(g,j),gc.getSubBoundingSlantBox(g,j),nx,ny) : mk(bb,gc.getBoundingSlantBox(g),nx,ny); judged_pairs++; double a=inter(T,N), mp=minproj(T,N); if(a>worstarea) worstarea=a; if(a>1.0&&mp>0.5){ viol++; if(viol<3){ printf("  T: x[%g,%g] y[%g,%g] s[%g,%g] d[%g,%g] origin=(%g,%g)\n  N: x[%g,%g] y[%g,%g] s[%g,%g] d[%g,%g] origin=(%g,%g) nshift=(%g,%g) nflags=%x\n  L=(%g,%g,%g,%g) off=(%g,%g) s0=(%g,%g) margin=%g collides=%d tflags=%x nnbrs=%zu attachedT=%d attachedN=%d\n",T.xi,T.xa,T.yi,T.ya,T.si,T.sa,T.di,T.da,t->origin().x,t->origin().y,N.xi,N.xa,N.yi,N.ya,N.si,N.sa,N.di,N.da,n->origin().x,n->origin().y,cn->shift().x,cn->shift().y,cn->flags(),L.bl.x,L.bl.y,L.tr.x,L.tr.y,o.x,o.y,s0x,s0y,(double)m,collides,c->flags(),nbrs.size(),t->attachedTo()!=0,n->attachedTo()!=0);} if(viol<2){ XC xc; Position s0(s0x,s0y); Position keep=c->shift(); c->setShift(s0); bool hc=false; xc.initSlot(seg,t,L,c->margin(),c->marginWt(),s0,o,dir,0); printf("   after init:\n"); xc.dumpz(); for(const Slot*n2:nbrs){ SlotCollision*c2=seg->collisionInfo(n2); bool h2=false; xc.mergeSlot(seg,(Slot*)n2,c2,c2->shift(),false,n2->isChildOf(t),h2,false,0); printf("   after merge gid %u (col=%d) origin=(%g,%g):\n",n2->gid(),h2,n2->origin().x,n2->origin().y); xc.dumpz(); } bool ic; Position r=xc.resolve(seg,ic,0); printf("   replay resolve -> (%g,%g) isCol=%d\n",r.x,r.y,ic); c->setShift(keep);} if(viol<6) printf("OVERLAP area=%g minproj=%g tgid=%u ngid=%u sub=%d/%d s1=(%g,%g) dir=%d\n",a,mp,tg,g,j,ns,s1.x,s1.y,dir);} } } } } }
  nbrs.clear(); npos.clear(); }
int main(int argc,char**argv){ gr_face*f=gr_make_file_face(argv[1],0); if(!f){puts("noface");return 1;} int dir=atoi(argv[3]);
  FILE*fp=fopen(argv[2],"rb"); char line[4096]; int segs=0; while(fgets(line,sizeof line,fp)){ size_t l=strlen(line); while(l&&(line[l-1]=='\n'||line[l-1]=='\r')) line[--l]=0; if(!l) continue; const void*e; size_t nc=gr_count_unicode_characters(gr_utf8,line,line+l,&e); if(e) continue; gr_segment*s=gr_make_seg(0,f,0,0,gr_utf8,line,nc,dir); if(s){segs++; gr_seg_destroy(s);} }
  printf("segs=%d steps=%ld computed=%ld resolved=%ld pairs=%ld OVERLAPviol=%ld worstarea=%g LIMITviol=%ld startoutside=%ld outofdomain=%ld notinreach=%ld\n",segs,steps,computed,resolved,judged_pairs,viol,worstarea,limviol,startout,outdom,skipreach); gr_face_destroy(f);} 
