import random, subprocess, sys
M=2**32
def s32(x): x&=M-1; return x-M if x>=2**31 else x
OPS={'ADD':6,'SUB':7,'MUL':8,'DIV':9,'MIN':10,'MAX':11,'NEG':12,'TRUNC8':13,'TRUNC16':14,'COND':15,'AND':16,'OR':17,'NOT':18,'EQUAL':19,'NOT_EQ':20,'LESS':21,'GTR':22,'LESS_EQ':23,'GTR_EQ':24,'BITOR':62,'BITAND':63,'BITNOT':64,'BITSET':65,'NOP':0}
BOUND=[0,1,-1,2,0x7F,0x80,0xFF,0x100,0x7FFF,0x8000,0xFFFF,0x10000,2**31-1,-2**31,-2**31+1,-0x80,-0x8000]
def gen(rng):
    code=bytearray(); st=[]; died=False
    def pushv(v):
        nonlocal code
        k=rng.randrange(5)
        if k==0: b=rng.randrange(256); code+=bytes([1,b]); st.append(b-256 if b>=128 else b)
        elif k==1: b=rng.randrange(256); code+=bytes([2,b]); st.append(b)
        elif k==2: w=rng.choice([rng.randrange(65536),0x7FFF,0x8000,0xFFFF,0]); code+=bytes([3,w>>8,w&255]); st.append(w-65536 if w>=32768 else w)
        elif k==3: w=rng.choice([rng.randrange(65536),0x7FFF,0x8000,0xFFFF,0]); code+=bytes([4,w>>8,w&255]); st.append(w)
        else:
            v=rng.choice(BOUND+[rng.randrange(-2**31,2**31)]); u=v&(M-1); code+=bytes([5,(u>>24)&255,(u>>16)&255,(u>>8)&255,u&255]); st.append(s32(u))
    n=rng.randrange(1,60)
    for _ in range(n):
        if died: break
        cands=['PUSH']
        if len(st)>=1: cands+=['NEG','TRUNC8','TRUNC16','NOT','BITNOT','BITSET','NOP']
        if len(st)>=2: cands+=['ADD','SUB','MUL','DIV','MIN','MAX','AND','OR','EQUAL','NOT_EQ','LESS','GTR','LESS_EQ','GTR_EQ','BITOR','BITAND']*2
        if len(st)>=3: cands+=['COND']*3
        if len(st)>900: cands=[c for c in cands if c!='PUSH'] or ['NOP']
        op=rng.choice(cands)
        if op=='PUSH': pushv(0); continue
        code.append(OPS[op])
        if op=='NOP': continue
        if op in('NEG','TRUNC8','TRUNC16','NOT','BITNOT','BITSET'):
            a=st.pop()
            if op=='NEG':
                if a==-2**31: code[-1]=0; st.append(a); continue   # engine UB (finding): avoid for now
                r=s32(-a)
            elif op=='TRUNC8': r=a&0xFF
            elif op=='TRUNC16': r=a&0xFFFF
            elif op=='NOT': r=int(a==0)
            elif op=='BITNOT': r=s32(~a)
            else:
                m=rng.randrange(65536); v=rng.randrange(65536); code+=bytes([m>>8,m&255,v>>8,v&255]); r=s32((a & ~m) | v)
            st.append(r); continue
        if op=='COND':
            f=st.pop(); t=st.pop(); c=st.pop(); st.append(t if c!=0 else f); continue
        b=st.pop(); a=st.pop()   # a is second (deeper), b is top
        if op=='ADD': r=s32(a+b)
        elif op=='SUB': r=s32(a-b)
        elif op=='MUL': r=s32(a*b)
        elif op=='DIV':
            if b==0 or (a==-2**31 and b==-1): died=True; r=0
            else:
                q=abs(a)//abs(b); r=s32(q if (a<0)==(b<0) else -q)
        elif op=='MIN': r=min(a,b)
        elif op=='MAX': r=max(a,b)
        elif op=='AND': r=int(a!=0 and b!=0)
        elif op=='OR': r=int(a!=0 or b!=0)
        elif op=='EQUAL': r=int(a==b)
        elif op=='NOT_EQ': r=int(a!=b)
        elif op=='LESS': r=int(a<b)
        elif op=='GTR': r=int(a>b)
        elif op=='LESS_EQ': r=int(a<=b)
        elif op=='GTR_EQ': r=int(a>=b)
        elif op=='BITOR': r=s32(a|b)
        elif op=='BITAND': r=s32(a&b)
        st.append(r)
    # end: choose ending
    if died: code.append(0x30 if st else 0x31); return bytes(code),('died',None)
    e=rng.randrange(10)
    if e==0: code.append(0x31); exp=('fin',0) if len(st)==0 else ('notempty',None)   # ret_zero pushes 0 -> needs empty stack before
    elif e==1: code.append(0x32); exp=('fin',1) if len(st)==0 else ('notempty',None)
    else:
        if not st: code+=bytes([1,7]); st.append(7)
        code.append(0x30); exp=('fin',st[-1]) if len(st)==1 else ('notempty',None)
    return bytes(code),exp
def main():
    N=int(sys.argv[1]); rng=random.Random(int(sys.argv[2])); progs=[gen(rng) for _ in range(N)]
    inp='\n'.join(p.hex() for p,_ in progs)+'\n'
    res={}
    for v in ('asan','asancall'):
        out=subprocess.run(['/verif/work/vm/vmdrv_'+v,'/repo/tests/fonts/small.ttf'],input=inp,capture_output=True,text=True)
        if out.returncode!=0: print('driver',v,'failed',out.stderr[-1500:]); return
        res[v]=out.stdout.strip().split('\n')
    bad=0; kinds={}
    for i,(p,exp) in enumerate(progs):
        for v in res:
            l=res[v][i]
            if l.startswith('LOADFAIL'): got=('loadfail',l)
            else:
                stt,val=map(int,l.split()); got=('fin',val) if stt==0 else (('died',None) if stt==5 else (('notempty',None) if stt==2 else ('other%d'%stt,None)))
            kinds[got[0]]=kinds.get(got[0],0)+1
            if got!=exp:
                bad+=1
                if bad<6: print('MISMATCH',v,p.hex(),'exp',exp,'got',got,l)
    print('programs',N,'mismatch',bad,'outcomes',kinds)
main()
