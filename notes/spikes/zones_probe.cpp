#include <iterator>
#include "inc/Intervals.h"
#include <cstdio>
#include <cstdlib>
#include <cmath>
#include <vector>
using namespace graphite2;
static unsigned long long rs=88172645463325252ULL;
static unsigned rnd(){ rs^=rs<<13; rs^=rs>>7; rs^=rs<<17; return (unsigned)(rs>>11);}
static float coord(int mode){ if(mode==0) return (float)((int)(rnd()%41)-20)*25.f; return (float)((int)(rnd()%200001)-100000)/97.f; }
int main(int argc,char**argv){ long N=atol(argv[1]); rs^=atol(argv[2])*0x9E3779B97F4A7C15ULL; long viol=0, ops=0, offers=0, empties=0;
  for(long it=0;it<N;it++){ int mode=rnd()%2; Zones z; float a=coord(mode),b=coord(mode); if(a>b) std::swap(a,b); if(a==b) b=a+1; bool sd=rnd()&1; float ml=(float)(rnd()%200), mw=(float)(rnd()%50);
    if(sd) z.initialise<SD>(a,b,ml,mw,coord(mode)); else z.initialise<XY>(a,b,ml,mw,coord(mode));
    std::vector<std::pair<float,float>> removed; int nops=rnd()%30;
    for(int k=0;k<nops;k++){ float x=coord(mode),y=coord(mode); if(x>y) std::swap(x,y); int op=rnd()%4; ops++;
      if(op==0){ z.exclude(x,y); removed.push_back({x,y}); }
      else if(op==1){ int ax=rnd()%4; z.exclude_with_margins(x,y,ax); removed.push_back({x,y}); }
      else { int ax=rnd()%4; z.weightedAxis(ax,x,y,(float)(rnd()%10),coord(mode),(float)(rnd()%10),coord(mode),coord(mode),(float)(rnd()%1000),rnd()&1); }
      // invariants
      float last=-INFINITY; bool first=true;
      for(Zones::const_iterator i=z.begin();i!=z.end();++i){ if(!(i->x<=i->xm)){viol++; if(viol<10)printf("inverted [%g,%g]\n",i->x,i->xm);} if(!first && i->x<last){viol++; if(viol<10)printf("unsorted/overlap prev_end=%g x=%g it=%ld\n",last,i->x,it);} if(i->x<a||i->xm>b){viol++; if(viol<10)printf("outside bounds [%g,%g] not in [%g,%g]\n",i->x,i->xm,a,b);} last=i->xm; first=false; }
      float cost; float o=coord(mode); float p=z.closest(o,cost);
      if(cost>=0){ offers++; if(p<a||p>b){viol++; if(viol<10)printf("offer %g outside [%g,%g]\n",p,a,b);} bool inlist=false; for(Zones::const_iterator i=z.begin();i!=z.end();++i) if(p>=i->x&&p<=i->xm) inlist=true; if(!inlist){viol++; if(viol<10)printf("offer %g not in any interval\n",p);} for(auto&r:removed) if(p>r.first&&p<r.second){viol++; if(viol<10)printf("offer %g inside removed (%g,%g) it=%ld\n",p,r.first,r.second,it);} } else { empties++; if(z.begin()!=z.end()){ /* cost -1 with intervals present? */ } }
    } }
  printf("sequences=%ld ops=%ld offers=%ld empties=%ld viol=%ld\n",N,ops,offers,empties,viol); }
