import random, json, subprocess, sys, os, itertools
sys.path.insert(0,'/verif/work/proto')
import gl, ref
def gen_spec(rng, allow):
    glyphs=[{'adv':500,'attrs':{1:0}}]
    for g in range(1,13): glyphs.append({'adv':300+50*g,'attrs':{1:0,4:rng.randrange(0,4),5:rng.randrange(-2,3)}})
    ncls=rng.randrange(3,8); classes=[]
    for _ in range(ncls):
        k=rng.randrange(1,6); classes.append(rng.sample(range(1,13),k))
    passes=[]
    for pi in range(rng.randrange(1,4)):
        pre=rng.randrange(0,3) if 'pre' in allow else 0
        rules=[]
        for ri in range(rng.randrange(1,6)):
            ppre=pre
            if 'mixed' in allow: pre=rng.randrange(0,3)
            L=pre+rng.randrange(1,4); pat=[rng.randrange(ncls) for _ in range(L)]
            acts=[]
            for k in range(pre,L):
                a=[]; r=rng.random()
                if r<0.25: a.append(('put_glyph',rng.randrange(ncls)))
                elif r<0.45:
                    off=rng.randrange(-k,L-k); incl=pat[k+off]; cands=[c for c in range(ncls) if len(classes[c])>=len(classes[incl])]
                    a.append(('put_subs',off,incl,rng.choice(cands)))
                elif r<0.55 and 'delete' in allow: a.append(('delete',))
                elif r<0.65 and 'insert' in allow:
                    a.append(('insert',)); a.append(('put_glyph',rng.randrange(ncls)))
                    if not ('noassoc' in allow and rng.random()<0.5): a.append(('assoc',[rng.choice([o for o in range(-k,L-k) if not (o<0 and k+o-pre>=0 and any(x[0]=='assoc' for x in acts[k+o-pre]))] or [0])]))
                    a.append(('endins',))
                elif r<0.75: a.append(('attr','AdvX',('const',rng.randrange(-50,900))))
                elif r<0.85: a.append(('user',rng.randrange(2),('const',rng.randrange(-3,4))))
                elif r<0.9 and 'copy' in allow:
                    off=rng.randrange(-k,L-k)
                    if off!=0: a.append(('put_copy',off))
                if a and a[0][0]!='delete' and a[0][0]!='insert' and rng.random()<0.2: a.append(('attr','ShiftX',('gattr',0,4)))
                if (not a or (a[0][0]!='delete' and a[0][0]!='insert')) and 'assoc' in allow and rng.random()<0.3: a.append(('assoc',[rng.choice([o for o in range(-k,L-k) if not (o<0 and k+o-pre>=0 and any(x[0]=='assoc' for x in acts[k+o-pre])) ] or [0]) for _ in range(rng.randrange(1,4))]))
                acts.append(a)
            cons=[None]*L
            if 'cons' in allow:
                for k in range(L):
                    if rng.random()<0.3:
                        lhs=rng.choice([('gattr',0,4),('gattr',0,5),('uattr',0,0),('uattr',0,1)])
                        cons[k]=(rng.choice(['eq','ne','lt','gt','le','ge']),lhs,('const',rng.randrange(-2,4)))
            rules.append({'pre':pre,'pat':pat,'acts':acts,'cons':cons,'ret':(rng.choice([0,0,0,-1,-2,1,2,-3]) if 'ret' in allow else 0)})
            pre=ppre
        passes.append({'type':'sub','pre':pre,'maxloop':(rng.choice([1,2,3,5,8]) if 'ret' in allow else 5),'rules':rules})
    if 'attach' in allow:
        rules=[]
        for ri in range(rng.randrange(1,4)):
            L=rng.randrange(2,4); pat=[rng.randrange(ncls) for _ in range(L)]; acts=[[] for _ in range(L)]
            k=rng.randrange(L); o=rng.choice([x for x in range(-k,L-k) if x!=0])
            acts[k]=[('attach',o)]
            if rng.random()<0.7: acts[k]+= [('attr',rng.choice(['AttX','AttY','AttWithX','AttWithY']),('const',rng.randrange(-200,400)))]
            if rng.random()<0.4: acts[k]+= [('attr','ShiftY',('const',rng.randrange(-100,100)))]
            if rng.random()<0.3: acts[rng.randrange(L)]+= [('attr','AdvX',('const',rng.choice([0,0,-30,200,900])))]
            if 'multi' in allow and L>=3 and rng.random()<0.6:
                base=rng.randrange(L)
                for kk in range(L):
                    if kk!=base:
                        acts[kk]=[('attach',base-kk),('attr',rng.choice(['AttX','AttY','AttWithX']),('const',rng.randrange(-300,600)))]
                        if rng.random()<0.5: acts[kk].append(('attr','AdvX',('const',rng.choice([0,0,100,700]))))
            rules.append({'pat':pat,'acts':acts,'cons':[None]*L,'ret':0})
        passes.append({'type':'pos','pre':0,'maxloop':5,'rules':rules})
    fdir=rng.randrange(2) if 'rtl' in allow else 0
    nlin=rng.randrange(0,ncls+1) if 'lookup' in allow else ncls
    return {'nlinear':nlin,'dir':fdir,'glyphs':glyphs,'cmap':{0x61+i:1+i for i in range(6)},'nattrs':8,'user':2,'classes':classes,'passes':passes}
def main():
    N=int(sys.argv[1]); seed=int(sys.argv[2]); allow=set(sys.argv[3].split(',')) if len(sys.argv)>3 else set()
    rng=random.Random(seed); bad=0; total=0; fired=0; noload=0
    strs=[''.join(p) for n in (1,2,3) for p in itertools.product('abc',repeat=n)]
    for it in range(N):
        spec=gen_spec(rng,allow)
        try: font=gl.build_font(spec)
        except ValueError as e: continue
        fn='/verif/work/proto/t.ttf'; open(fn,'wb').write(font)
        ss=strs+[''.join(rng.choice('abcdef') for _ in range(rng.randrange(4,14))) for _ in range(30)]
        tdir=rng.randrange(2) if 'rtl' in allow else 0
        out=subprocess.run([os.environ.get('DRV','/verif/work/proto/dumpdrv'),fn,'2',str(tdir)],input='\n'.join(ss)+'\n',capture_output=True,text=True)
        lines=out.stdout.split('\n')
        if lines[0]=='NOFACE':
            noload+=1
            if noload<4: print('NOFACE spec',it, json.dumps(spec)[:300]); json.dump(spec,open('/verif/work/proto/noface%d.json'%noload,'w'))
            continue
        if out.returncode!=0: print('DRIVER FAIL',it,out.stderr[-2000:]); json.dump(spec,open('/verif/work/proto/crash.json','w')); break
        for s,l in zip(ss,lines):
            total+=1
            tr=[]
            try: st=ref.shape(spec,[1+ord(c)-0x61 for c in s],trace=tr,textdir=tdir); d=ref.dump(st)
            except ref.Died: d=None
            fired+=len(tr)
            if l=='NULL': e=None
            else: e=json.loads(l)
            if e!=d:
                bad+=1
                if bad<=5:
                    print('MISMATCH it',it,'str',s,'fontdir',spec['dir'],'textdir',tdir); print(' eng',json.dumps(e)); print(' ref',json.dumps(d)); print(' trace',tr); json.dump(spec,open('/verif/work/proto/bad%d.json'%bad,'w'))
    print('programs',N,'cases',total,'rules fired',fired,'mismatch',bad,'noload',noload)
main()
