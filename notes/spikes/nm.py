import sys, json, struct
sys.path.insert(0,'/verif/work/proto')
import gl
from gl import be16,be32
def name_table(recs):  # recs: (plat,enc,lang,nameid,bytes)
    n=len(recs); data=b''; out=b''
    for p,e,l,i,b in recs:
        out+=be16(p,e,l,i,len(b),len(data)); data+=b
    return be16(0,n,6+12*n)+out+data
spec=json.load(open('/verif/work/proto/base_spec.json'))
for g in spec['glyphs']: g['attrs']={int(k):v for k,v in g.get('attrs',{}).items()}
spec['cmap']={int(k):v for k,v in spec['cmap'].items()}
spec['feats']=[(0x61626364,[(0,257),(1,258),(5,259)]),(2,[(0,260),(3,261)]),(3,[])]
variant=sys.argv[1]
u=lambda s:s.encode('utf-16-be')
if variant=='single31_after_mac': recs=[(1,0,0,256,b'MacFeat'),(3,1,0x409,256,u('WinFeat'))]
elif variant=='two31_after_mac': recs=[(1,0,0,256,b'MacFeat'),(3,1,0x409,256,u('WinFeat')),(3,1,0x409,257,u('Set0'))]
elif variant=='only31_first': recs=[(3,1,0x409,256,u('WinFeat')),(3,1,0x409,257,u('Set0'))]
elif variant=='std': recs=[(3,1,0x409,0,u('Copyright')),(3,1,0x409,1,u('Fam')),(3,1,0x409,256,u('WinFeat')),(3,1,0x409,257,u('Set0')),(3,1,0x409,258,u('Set1'))]
orig=gl.build_font
def bf(spec):
    import types
    return None
# patch: add name table by rebuilding sfnt
import gl as G
_sfnt=G.sfnt
def sfnt2(t):
    t=dict(t); t['name']=name_table(recs); return _sfnt(t)
G.sfnt=sfnt2
open('/verif/work/proto/nm.ttf','wb').write(G.build_font(spec))
