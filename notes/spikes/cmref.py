import struct, sys, subprocess
def ref_map(d):
    nt=struct.unpack('>H',d[4:6])[0]; T={}
    for i in range(nt):
        tag,cs,off,ln=struct.unpack('>4sIII',d[12+16*i:28+16*i]); T[tag]=(off,ln)
    co,cl=T[b'cmap']; c=d[co:co+cl]
    n=struct.unpack('>H',c[2:4])[0]; subs={}
    for i in range(n):
        p,e,o=struct.unpack('>HHI',c[4+8*i:12+8*i]); subs.setdefault((p,e),o)
    m={}
    bmp=None
    for k in [(3,1),(0,3),(0,2),(0,1),(0,0)]:
        if k in subs and struct.unpack('>H',c[subs[k]:subs[k]+2])[0]==4: bmp=subs[k]; break
    smp=None
    for k in [(3,10),(0,4)]:
        if k in subs and struct.unpack('>H',c[subs[k]:subs[k]+2])[0]==12: smp=subs[k]; break
    if bmp is not None:
        t=c[bmp:]; length=struct.unpack('>H',t[2:4])[0]; sc=struct.unpack('>H',t[6:8])[0]//2
        end=struct.unpack('>%dH'%sc,t[14:14+2*sc]); st=struct.unpack('>%dH'%sc,t[16+2*sc:16+4*sc]); dl=struct.unpack('>%dh'%sc,t[16+4*sc:16+6*sc]); ro=struct.unpack('>%dH'%sc,t[16+6*sc:16+8*sc])
        for i in range(sc):
            for u in range(st[i],end[i]+1):
                if u in m: continue      # first segment whose end >= u wins (binary search on endCode)
                if ro[i]==0: g=(u+dl[i])&0xFFFF
                else:
                    pos=16+6*sc+2*i+ro[i]+2*(u-st[i])
                    if pos+1>=length: g=0
                    else:
                        g=struct.unpack('>H',t[pos:pos+2])[0]
                        if g: g=(g+dl[i])&0xFFFF
                m[u]=g
    if smp is not None:
        t=c[smp:]; ng=struct.unpack('>I',t[12:16])[0]
        for i in range(ng):
            a,b,g=struct.unpack('>III',t[16+12*i:28+12*i])
            for u in range(max(a,0x10000),b+1):
                if u not in m: m[u]=(g+u-a)&0xFFFF
    return {u:g for u,g in m.items() if g}
for fn in sys.argv[1:]:
    d=open(fn,'rb').read(); r=ref_map(d)
    for opt in (0,4):
        out=subprocess.run(['/verif/work/cm/cmdump',fn,str(opt)],capture_output=True,text=True).stdout
        e={int(a):int(b) for a,b in (l.split() for l in out.strip().split('\n') if l and l!='noface')}
        diff=[u for u in set(r)|set(e) if r.get(u,0)!=e.get(u,0)]
        print(fn.split('/')[-1],'opt',opt,'ref mapped',len(r),'engine mapped',len(e),'diff',len(diff),[hex(u) for u in sorted(diff)[:5]])
