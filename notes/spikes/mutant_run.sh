#!/bin/sh
# usage: run.sh <name> <file> <sed-expr>
name=$1; file=$2; expr=$3
rm -rf /tmp/probe/mut/$name; mkdir -p /tmp/probe/mut/$name/o; cp -r /repo/src /tmp/probe/mut/$name/src; cp -r /repo/include /tmp/probe/mut/$name/include
sed -i "$expr" /tmp/probe/mut/$name/src/$file
if diff -q /repo/src/$file /tmp/probe/mut/$name/src/$file >/dev/null; then echo "MUTANT $name: sed did not change anything"; exit 1; fi
S=/tmp/probe/mut/$name
for f in $(ls $S/src/*.cpp | grep -v -e call_machine -e json.cpp); do echo $f; done | xargs -P16 -I{} sh -c "g++ -std=c++11 -O1 -g -fno-rtti -fno-exceptions -fsanitize=address,undefined -fno-sanitize-recover=all -DGRAPHITE2_NTRACING -DGRAPHITE2_STATIC -I$S/include -I$S/src -c {} -o $S/o/\$(basename {} .cpp).o" && ar rcs $S/libgr.a $S/o/*.o && g++ -std=c++11 -O1 -g -fsanitize=address,undefined -fno-sanitize-recover=all -I/repo/include /verif/work/proto/dumpdrv.cpp $S/libgr.a -o $S/dumpdrv && cd /verif/work/proto && DRV=$S/dumpdrv timeout 600 python3 cmp.py 100 7 "mixed,noassoc,multi,assoc,ret,cons,pre,delete,insert,attach,rtl" 2>&1 | tail -1 | sed "s/^/MUTANT $name: /"
rm -rf /tmp/probe/mut/$name
