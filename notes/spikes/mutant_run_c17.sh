#!/bin/sh
name=$1; file=$2; expr=$3
S=/tmp/probe/mut/$name; rm -rf $S; mkdir -p $S/o; cp -r /repo/src $S/src
sed -i "$expr" $S/src/$file
if diff -q /repo/src/$file $S/src/$file >/dev/null; then echo "MUTANT $name: no change"; exit 1; fi
for f in $(ls $S/src/*.cpp | grep -v -e call_machine -e json.cpp); do echo $f; done | xargs -P16 -I{} sh -c "g++ -std=c++11 -O1 -g -fno-rtti -fno-exceptions -fsanitize=address,undefined -fno-sanitize-recover=all -DGRAPHITE2_NTRACING -DGRAPHITE2_STATIC -I/repo/include -I$S/src -c {} -o $S/o/\$(basename {} .cpp).o" && ar rcs $S/libgr.a $S/o/*.o
g++ -std=c++11 -O1 -g -fno-rtti -fsanitize=address,undefined -fno-sanitize-recover=all -DGRAPHITE2_NTRACING -DGRAPHITE2_STATIC -I/repo/include -I$S/src /verif/work/coll/collb.cpp $S/libgr.a -o $S/collb && echo "MUTANT $name collb: $($S/collb /repo/tests/fonts/Awami_test.ttf 20000 1 2>&1 | tail -1)"
g++ -std=c++11 -O1 -g -fno-rtti -fsanitize=address,undefined -fno-sanitize-recover=all -DGRAPHITE2_NTRACING -DGRAPHITE2_STATIC -I/repo/include -I$S/src /tmp/probe/p11.cpp $S/libgr.a -o $S/p11 && echo "MUTANT $name zones: $($S/p11 30000 1 2>&1 | tail -1)"
rm -rf $S
