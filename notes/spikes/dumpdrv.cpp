// prototype executor: reads "fontpath\n" then lines of space-separated glyph chars; prints JSON dumps
#include <graphite2/Font.h>
#include <graphite2/Segment.h>
#include <cstdio>
#include <cstdlib>
#include <cstring>
#include <string>
extern "C" void gr_verif_rule_fired(const void*, int, int) __attribute__((weak));
int main(int argc,char**argv){ gr_face*f=gr_make_file_face(argv[1],0); if(!f){puts("NOFACE");return 0;} int nuser=atoi(argv[2]); int dir=argc>3?atoi(argv[3]):0; char line[1024];
  while(fgets(line,sizeof line,stdin)){ size_t l=strlen(line); while(l&&line[l-1]=='\n') line[--l]=0; gr_segment*s=gr_make_seg(0,f,0,0,gr_utf8,line,l,dir); if(!s){puts("NULL");continue;}
    printf("{\"slots\":["); bool first=true; for(const gr_slot*p=gr_seg_first_slot(s);p;p=gr_slot_next_in_segment(p)){ { int par=-1; const gr_slot*pp=gr_slot_attached_to(p); if(pp){ par=0; for(const gr_slot*q=gr_seg_first_slot(s);q&&q!=pp;q=gr_slot_next_in_segment(q)) par++; } printf("%s{\"par\":%d,",first?"":",",par); } printf("%s\"gid\":%u,\"before\":%d,\"after\":%d,\"advx\":%d,\"sx\":%d,\"sy\":%d,\"user\":[","",gr_slot_gid(p),gr_slot_before(p),gr_slot_after(p),gr_slot_attr(p,s,gr_slatAdvX,0),gr_slot_attr(p,s,gr_slatShiftX,0),gr_slot_attr(p,s,gr_slatShiftY,0)); for(int u=0;u<nuser;u++) printf("%s%d",u?",":"",gr_slot_attr(p,s,gr_slatUserDefn,u)); printf("],\"x\":%g,\"y\":%g}",gr_slot_origin_X(p),gr_slot_origin_Y(p)); first=false; }
    printf("],\"adv\":%g}\n",gr_seg_advance_X(s)); gr_seg_destroy(s);} gr_face_destroy(f); return 0; }
