// spike: MON-TABLE + MON-ALLOC on load/shape/destroy histories, with .fuzz style single-byte mutations
#include <graphite2/Font.h>
#include <graphite2/Segment.h>
#include <cstdio>
#include <cstdlib>
#include <cstring>
#include <vector>
#include <set>
#include <map>
#include <string>
extern "C" int __sanitizer_install_malloc_and_free_hooks(void (*)(const volatile void*, size_t), void (*)(const volatile void*));
static __thread int in_lib=0;
static const int MAXLIVE=1<<16; static const volatile void* live[MAXLIVE]; static int nlive=0; static long lib_allocs=0;
static void mh(const volatile void*p,size_t){ if(in_lib>0&&p){ lib_allocs++; if(nlive<MAXLIVE) live[nlive++]=p; } }
static void fh(const volatile void*p){ if(!p) return; for(int i=nlive-1;i>=0;i--) if(live[i]==p){ live[i]=live[--nlive]; return; } }
struct Lib { Lib(){in_lib++;} ~Lib(){in_lib--;} };
struct App { std::vector<unsigned char> d; std::set<const void*> out; long gets=0,rels=0,bad=0,gets_after=0; bool armed=false; bool norelease=false; };
static unsigned be32(const unsigned char*p){return (p[0]<<24)|(p[1]<<16)|(p[2]<<8)|p[3];}
static const void* gt(const void*h,unsigned name,size_t*len){ int save=in_lib; in_lib=0; App*a=(App*)h; a->gets++; if(a->armed) a->gets_after++; const void*res=0; auto&d=a->d; if(d.size()>=12){ unsigned nt=(d[4]<<8)|d[5]; if(12+16u*nt<=d.size()) for(unsigned i=0;i<nt;i++){ const unsigned char*e=&d[12+16*i]; if(be32(e)==name){ unsigned off=be32(e+8),l=be32(e+12); if(off<=d.size()&&l<=d.size()-off){ void*c=malloc(l?l:1); memcpy(c,&d[off],l); *len=l; a->out.insert(c); res=c; } break; } } } in_lib=save; return res; }
static void rt(const void*h,const void*p){ int save=in_lib; in_lib=0; App*a=(App*)h; a->rels++; if(!a->out.count(p)){ a->bad++; } else { a->out.erase(p); free((void*)p); } in_lib=save; }
static long v_out_fail=0,v_out_destroy=0,v_badrel=0,v_getafter=0,v_leak=0,cases=0,loaded=0;
static void one(App&app,int opts,const char*text){ app.out.clear(); app.armed=false; app.gets=app.rels=app.bad=app.gets_after=0; nlive=0; cases++;
  gr_face_ops ops={sizeof(gr_face_ops),gt,rt}; gr_face*f; { Lib l; f=gr_make_face_with_ops(&app,&ops,opts); }
  if(!f){ if(!app.out.empty()){ v_out_fail++; if(v_out_fail<4) printf("  outstanding after failed make_face: %zu\n",app.out.size()); } }
  else { loaded++; app.armed=true; gr_font*font; { Lib l; font=gr_make_font(14,f); }
    size_t n=strlen(text); gr_segment*s; { Lib l; s=gr_make_seg(font,f,0,0,gr_utf8,text,n,0); }
    { Lib l; unsigned nf=gr_face_n_fref(f); for(unsigned i=0;i<nf;i++){ const gr_feature_ref*r=gr_face_fref(f,i); unsigned short lg=0x409; unsigned len; void*lab=gr_fref_label(r,&lg,gr_utf8,&len); gr_label_destroy(lab);} gr_feature_val*fv=gr_face_featureval_for_lang(f,0); gr_featureval_destroy(fv); }
    { Lib l; if(s) gr_seg_destroy(s); gr_font_destroy(font); gr_face_destroy(f); }
    if((opts&6)==6 && app.gets_after){ v_getafter++; if(v_getafter<4) printf("  get_table after make_face under preloadAll: %ld\n",app.gets_after);} 
    if(!app.out.empty()){ v_out_destroy++; if(v_out_destroy<4) printf("  outstanding after destroy: %zu\n",app.out.size()); } }
  if(app.bad){ v_badrel++; }
  if(nlive){ v_leak++; if(v_leak<4) printf("  live library allocations at quiescence: %d\n",nlive); }
  for(const void*p:app.out) free((void*)p); app.out.clear(); }
int main(int argc,char**argv){ __sanitizer_install_malloc_and_free_hooks(mh,fh); App base; FILE*fp=fopen(argv[1],"rb"); fseek(fp,0,SEEK_END); long sz=ftell(fp); fseek(fp,0,SEEK_SET); base.d.resize(sz); fread(base.d.data(),1,sz,fp); fclose(fp); const char*text=argv[2];
  for(int o=0;o<8;o++){ App a=base; one(a,o,text); }
  for(int i=3;i<argc;i++){ FILE*ff=fopen(argv[i],"r"); if(!ff) continue; char line[512]; while(fgets(line,sizeof line,ff)){ int ec; unsigned off,val; if(sscanf(line,"%d,%x,%u",&ec,&off,&val)==3 && off<base.d.size()){ for(int o:{0,6}){ App a=base; a.d[off]=(unsigned char)val; one(a,o,text);} } } fclose(ff); }
  printf("%s cases=%ld loaded=%ld lib_allocs=%ld | outstanding-after-fail=%ld outstanding-after-destroy=%ld bad-release=%ld get-after-make(preloadAll)=%ld leaks=%ld\n",argv[1],cases,loaded,lib_allocs,v_out_fail,v_out_destroy,v_badrel,v_getafter,v_leak); return 0; }
