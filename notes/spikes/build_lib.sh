#!/bin/sh
# usage: build.sh <outdir> <flags...>
out=$1; shift
mkdir -p $out/o
SRCS=$(ls /repo/src/*.cpp | grep -v -e call_machine -e json.cpp)
for f in $SRCS; do echo $f; done | xargs -P16 -I{} sh -c "g++ -std=c++11 -g -fno-omit-frame-pointer -fno-rtti -fno-exceptions $* -DGRAPHITE2_NTRACING -DGRAPHITE2_STATIC -I/repo/include -I/repo/src -c {} -o $out/o/\$(basename {} .cpp).o" && ar rcs $out/libgr.a $out/o/*.o
