import random, json, subprocess, sys, itertools
sys.path.insert(0,'/verif/work/proto')
import gl
ns={}
exec(open('/verif/work/proto/cmp.py').read().rsplit('main()',1)[0],ns)
def hostile_spec(rng):
    spec=ns['gen_spec'](rng,set("assoc,ret,cons,pre,delete,insert,attach,rtl,copy".split(',')))
    ncls=len(spec['classes'])
    # make passes nastier: add attach rules in substitution passes too, re-attach, attach both directions, put_copy anywhere, assoc anywhere
    for P in spec['passes']:
        P['maxloop']=rng.choice([1,3,20,255])
        for r in P['rules']:
            L=len(r['pat']); pre=P['pre']
            for k in range(pre,L):
                a=r['acts'][k-pre]
                if a and a[0][0] in('insert','delete'): continue
                x=rng.random()
                if x<0.3:
                    o=rng.choice([o for o in range(-k,L-k) if o!=0] or [None])
                    if o is not None: a.append(('attach',o))
                if x>0.8:
                    o=rng.choice([o for o in range(-k,L-k) if o!=0] or [None])
                    if o is not None: a.insert(0,('put_copy',o))
                if rng.random()<0.2: a.append(('assoc',[rng.randrange(-k,L-k) for _ in range(rng.randrange(1,4))]))
            r['ret']=rng.choice([0,0,-1,-2,-3,1,3])
    return spec
def main():
    N=int(sys.argv[1]); rng=random.Random(int(sys.argv[2])); tot={'segs':0,'nulls':0,'attached':0,'viol':0}; noface=0; crashes=0
    strs=[''.join(p) for n in (1,2,3,4) for p in itertools.product('abc',repeat=n)]
    for it in range(N):
        spec=hostile_spec(rng)
        try: font=gl.build_font(spec)
        except Exception as e: continue
        open('/verif/work/proto/h.ttf','wb').write(font)
        ss=strs+[''.join(rng.choice('abcdef') for _ in range(rng.randrange(5,40))) for _ in range(40)]
        out=subprocess.run([__import__('os').environ.get('WALK','/verif/work/proto/walk'),'/verif/work/proto/h.ttf'],input='\n'.join(ss)+'\n',capture_output=True,text=True,timeout=120)
        if out.returncode!=0:
            crashes+=1
            if crashes<4: print('CRASH it',it,out.stderr[-1500:]); json.dump(spec,open('/verif/work/proto/hcrash%d.json'%crashes,'w'))
            continue
        last=out.stdout.strip().split('\n')
        if last[0]=='NOFACE': noface+=1; continue
        for l in last[:-1]:
            print('it',it,l)
        kv=dict(x.split('=') for x in last[-1].split())
        for k in tot: tot[k]+=int(kv[k])
        if int(kv['viol'])>0 and tot['viol']<200: json.dump(spec,open('/verif/work/proto/hviol_%d.json'%it,'w'))
    print('programs',N,tot,'noface',noface,'crashes',crashes)
main()
