// spike C08: history independence
#include <graphite2/Font.h>
#include <graphite2/Segment.h>
#include <cstdio>
#include <cstdlib>
#include <cstring>
#include <string>
#include <vector>
static unsigned long long rs=88172645463325252ULL;
static unsigned rnd(){ rs^=rs<<13; rs^=rs>>7; rs^=rs<<17; return (unsigned)(rs>>11);}
static std::string dump(gr_face*f,gr_font*font,const std::vector<unsigned>&t,int dir,const gr_feature_val*fv){ gr_segment*s=gr_make_seg(font,f,0,fv,gr_utf32,t.data(),t.size()-1,dir); if(!s) return "null"; std::string o; char b[160]; unsigned n=gr_seg_n_cinfo(s); for(unsigned i=0;i<n;i++){ const gr_char_info*c=gr_seg_cinfo(s,i); snprintf(b,sizeof b,"c%u:%d,%d,%d;",gr_cinfo_unicode_char(c),gr_cinfo_before(c),gr_cinfo_after(c),gr_cinfo_break_weight(c)); o+=b;} for(const gr_slot*p=gr_seg_first_slot(s);p;p=gr_slot_next_in_segment(p)){ snprintf(b,sizeof b,"%u@%a,%a,%a,%d,%d,%d,%u;",gr_slot_gid(p),gr_slot_origin_X(p),gr_slot_origin_Y(p),gr_slot_advance_X(p,f,font),gr_slot_before(p),gr_slot_after(p),gr_slot_original(p),gr_slot_index(p)); o+=b;} snprintf(b,sizeof b,"adv=%a",gr_seg_advance_X(s)); o+=b; gr_seg_destroy(s); return o; }
int main(int argc,char**argv){ const char*fn=argv[1]; int opts=atoi(argv[2]); rs^=atoi(argv[3])*0x9E3779B97F4A7C15ULL;
  gr_face*live=gr_make_file_face(fn,opts); if(!live){puts("noface");return 1;} gr_font*lfont=gr_make_font(17,live);
  std::vector<unsigned> sup; for(unsigned c=0x20;c<0x30000;c++) if(gr_face_is_char_supported(live,c,0)) sup.push_back(c);
  long probes=0,diff=0,ops=0; std::vector<gr_segment*> pool;
  for(int it=0;it<400;it++){ // history ops
    for(int k=0;k<10;k++){ ops++; int op=rnd()%5; if(op<3){ int n=1+rnd()%20; std::vector<unsigned> t(n+1,0); for(int i=0;i<n;i++) t[i]=sup[rnd()%sup.size()]; gr_feature_val*fv=0; if(rnd()&1){ fv=gr_face_featureval_for_lang(live,0); unsigned nf=gr_face_n_fref(live); if(nf){ const gr_feature_ref*r=gr_face_fref(live,rnd()%nf); unsigned nv=gr_fref_n_values(r); if(nv) gr_fref_set_feature_value(r,gr_fref_value(r,rnd()%nv),fv);} } gr_segment*s=gr_make_seg((rnd()&1)?lfont:0,live,0,fv,gr_utf32,t.data(),n,rnd()%8); if(fv) gr_featureval_destroy(fv); if(s){ if(rnd()&1){ const gr_slot*f1=gr_seg_first_slot(s); if(f1) gr_seg_justify(s,f1,lfont,200+rnd()%500,gr_justCompleteLine,0,0);} pool.push_back(s);} }
      else if(op==3 && !pool.empty()){ size_t i=rnd()%pool.size(); gr_seg_destroy(pool[i]); pool[i]=pool.back(); pool.pop_back(); }
      else { unsigned nf=gr_face_n_fref(live); if(nf){ const gr_feature_ref*r=gr_face_fref(live,rnd()%nf); unsigned short l=0x409; unsigned len; void*lab=gr_fref_label(r,&l,gr_utf8,&len); gr_label_destroy(lab);} } }
    // probe
    int n=1+rnd()%16; std::vector<unsigned> t(n+1,0); for(int i=0;i<n;i++) t[i]=sup[rnd()%sup.size()]; int dir=rnd()%8;
    gr_face*fresh=gr_make_file_face(fn,opts); gr_font*ffont=gr_make_font(17,fresh);
    std::string a=dump(live,lfont,t,dir,0), b=dump(fresh,ffont,t,dir,0); probes++; if(a!=b){ diff++; if(diff<4) printf("DIFF probe %ld\n live=%s\nfresh=%s\n",probes,a.c_str(),b.c_str()); }
    gr_font_destroy(ffont); gr_face_destroy(fresh); }
  for(auto s:pool) gr_seg_destroy(s); printf("%s opts=%d ops=%ld probes=%ld diffs=%ld\n",fn,opts,ops,probes,diff); gr_font_destroy(lfont); gr_face_destroy(live); }
