import struct, subprocess, sys, random
fn=sys.argv[1]; text=sys.argv[2]; d=open(fn,'rb').read()
nt=struct.unpack('>H',d[4:6])[0]; T={}
for i in range(nt):
    tag,cs,off,ln=struct.unpack('>4sIII',d[12+16*i:28+16*i]); T[tag.decode('latin1')]=(off,ln)
patches=[]
def sweep(start,length,step=1):
    for o in range(start,start+length,step):
        v=d[o]
        for nv in {0,1,0x7f,0x80,0xff,(v+1)&255,(v-1)&255,(v^0x80)}:
            if nv!=v: patches.append('%d=%d'%(o,nv))
so,sl=T['Silf']; ver=struct.unpack('>I',d[so:so+4])[0]
hdr=12 if ver>=0x30000 else 8
nsub=struct.unpack('>H',d[so+(8 if ver>=0x30000 else 4):so+(10 if ver>=0x30000 else 6)])[0]
sub=struct.unpack('>I',d[so+hdr:so+hdr+4])[0]
sweep(so,hdr+4*nsub)
# subtable header: first ~120 bytes
sweep(so+sub,140)
# find passes: numPasses at fixed offset
p=so+sub+(8 if ver>=0x30000 else 0); numPasses=d[p+6]; numJ=d[p+19]
q=p+20+8*numJ+2+1+1+1+1+3; ncrit=d[q]; q+=1+2*ncrit+1; nscr=d[q]; q+=1+4*nscr+2
opasses=[struct.unpack('>I',d[q+4*i:q+4*i+4])[0] for i in range(numPasses+1)]
sweep(q,4*(numPasses+1))
q2=q+4*(numPasses+1); sweep(q2,8+12)     # pseudo header + a little
# class map header: after pseudos
npseudo=struct.unpack('>H',d[q2:q2+2])[0]; cm=q2+8+6*npseudo; sweep(cm,4+ (8 if ver>=0x40000 else 4)*3)
for i in range(numPasses):
    ps=so+sub+opasses[i]; sweep(ps,40)
    # a band after the header (ranges / rulemap) and the area before code
    sweep(ps+40,60)
    plen=opasses[i+1]-opasses[i]
    rng=random.Random(i)
    for _ in range(60): 
        o=ps+rng.randrange(plen); v=d[o]
        for nv in {0,0xff,(v+1)&255}: 
            if nv!=v: patches.append('%d=%d'%(o,nv))
for tag,n in (('Gloc',16),('Glat',24),('Feat',60),('Sill',40),('cmap',60),('head',54),('hhea',36),('maxp',8),('name',30),('loca',8),('hmtx',8)):
    if tag in T: sweep(T[tag][0],min(n,T[tag][1]))
# directory entries
sweep(0,12+16*nt)
print('patches',len(patches),file=sys.stderr)
out=subprocess.run(['/verif/work/mon/errdrv',fn,text,sys.argv[3]],input='\n'.join(patches)+'\n',capture_output=True,text=True)
if out.returncode!=0: print('DRIVER DIED',out.stderr[-2000:]); 
res=out.stdout.split('\n'); codes={}
for r in res:
    if r.startswith('ERR'): c=int(r.split()[1]); codes[c]=codes.get(c,0)+1
    elif r.startswith('OK'): codes[r]=codes.get(r,0)+1
print({k:codes[k] for k in sorted(codes,key=str)})
print('distinct error codes:',len([k for k in codes if isinstance(k,int)]))
