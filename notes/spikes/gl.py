# PROTOTYPE (design-round research, not framework code): GDL-lite -> graphite font, + reference interpreter
import struct, sys, json, random, itertools
def be16(*v): return b''.join(struct.pack('>H', x & 0xFFFF) for x in v)
def be32(*v): return b''.join(struct.pack('>I', x & 0xFFFFFFFF) for x in v)
def u8(*v): return bytes([x & 0xFF for x in v])
# ---------------------------------------------------------------- opcodes
OP=dict(NOP=0,PUSH_BYTE=1,PUSH_BYTEU=2,PUSH_SHORT=3,PUSH_SHORTU=4,PUSH_LONG=5,ADD=6,SUB=7,MUL=8,DIV=9,MIN=10,MAX=11,NEG=12,TRUNC8=13,TRUNC16=14,COND=15,AND=16,OR=17,NOT=18,EQUAL=19,NOT_EQ=20,LESS=21,GTR=22,LESS_EQ=23,GTR_EQ=24,
 NEXT=25,NEXT_N=26,COPY_NEXT=27,PUT_GLYPH_8=28,PUT_SUBS_8=29,PUT_COPY=30,INSERT=31,DELETE=32,ASSOC=33,CNTXT_ITEM=34,ATTR_SET=35,ATTR_ADD=36,ATTR_SUB=37,ATTR_SET_SLOT=38,IATTR_SET_SLOT=39,PUSH_SLOT_ATTR=40,PUSH_GLYPH_ATTR_OBS=41,PUSH_GLYPH_METRIC=42,PUSH_FEAT=43,
 PUSH_ATT_TO_GATTR_OBS=44,PUSH_ATT_TO_GLYPH_METRIC=45,PUSH_ISLOT_ATTR=46,PUSH_IGLYPH_ATTR=47,POP_RET=48,RET_ZERO=49,RET_TRUE=50,IATTR_SET=51,IATTR_ADD=52,IATTR_SUB=53,PUSH_PROC_STATE=54,PUSH_VERSION=55,PUT_SUBS=56,PUT_SUBS2=57,PUT_SUBS3=58,PUT_GLYPH=59,PUSH_GLYPH_ATTR=60,PUSH_ATT_TO_GLYPH_ATTR=61,BITOR=62,BITAND=63,BITNOT=64,BITSET=65,SET_FEAT=66)
SLAT=dict(AdvX=0,AdvY=1,AttTo=2,AttX=3,AttY=4,AttWithX=8,AttWithY=9,ShiftX=20,ShiftY=21,UserDefn=55)
def push(v):
    if -128<=v<=127: return u8(OP['PUSH_BYTE'],v)
    if -32768<=v<=32767: return u8(OP['PUSH_SHORT'])+be16(v)
    return u8(OP['PUSH_LONG'])+be32(v)
BIN={'eq':'EQUAL','ne':'NOT_EQ','lt':'LESS','gt':'GTR','le':'LESS_EQ','ge':'GTR_EQ','and':'AND','or':'OR','add':'ADD','sub':'SUB','mul':'MUL'}
def emit_expr(e):
    k=e[0]
    if k=='const': return push(e[1])
    if k=='gattr': return u8(OP['PUSH_GLYPH_ATTR'])+be16(e[2])+u8(e[1])       # (slotoff, attr)
    if k=='uattr': return u8(OP['PUSH_ISLOT_ATTR'],SLAT['UserDefn'],e[1],e[2])  # (slotoff, idx)
    if k=='feat':  return u8(OP['PUSH_FEAT'],e[2],e[1])                          # (slotoff, featidx)
    if k=='not':   return emit_expr(e[1])+u8(OP['NOT'])
    if k in BIN:   return emit_expr(e[1])+emit_expr(e[2])+u8(OP[BIN[k]])
    raise ValueError(e)
# ---------------------------------------------------------------- tables
def sfnt(tables):
    tags=sorted(tables); n=len(tags); off=12+16*n; dirb=b''; body=b''
    for t in tags:
        d=tables[t]; dirb+=t.encode('latin1')+be32(0,off+len(body),len(d)); body+=d+b'\0'*((-len(d))%4)
    return be32(0x00010000)+be16(n,0,0,0)+dirb+body
def cmap4(m):
    cps=sorted(m); segs=[]
    for c in cps:
        if segs and segs[-1][1]==c-1 and (m[c]-c)==segs[-1][2]: segs[-1][1]=c
        else: segs.append([c,c,m[c]-c])
    segs.append([0xFFFF,0xFFFF,1]); n=len(segs)
    sub=be16(4,16+8*n,0,2*n,0,0,0)+be16(*[s[1] for s in segs])+be16(0)+be16(*[s[0] for s in segs])+be16(*[s[2] for s in segs])+be16(*[0]*n)
    return be16(0,1)+be16(3,1)+be32(12)+sub
def glat_gloc(attrs, nattr):
    glat=be32(0x00010000); locs=[]
    for a in attrs:
        locs.append(len(glat)); a={k:v for k,v in a.items()}
        if not a: a={0:0}
        keys=sorted(a); i=0
        while i<len(keys):
            j=i
            while j+1<len(keys) and keys[j+1]==keys[j]+1: j+=1
            glat+=u8(keys[i], j-i+1)+be16(*[a[k] for k in keys[i:j+1]]); i=j+1
    locs.append(len(glat))
    return glat, be32(0x00010000)+be16(0,nattr)+be16(*locs)
def feat_table(feats):   # feats: list of (id, [(value,label)...])  v2
    n=len(feats); hdr=be32(0x00020000)+be16(n,0)+be32(0); recs=b''; sets=b''; base=12+16*n
    for fid,st in feats:
        recs+=be32(fid)+be16(len(st),0)+be32(base+len(sets))+be16(0,256)
        for v,l in st: sets+=be16(v,l)
    return hdr+recs+sets
def build_pass(P, spec, pass_off):
    rules=P['rules']; ng=len(spec['glyphs'])
    rpre=[r.get('pre',P.get('pre',0)) for r in rules]; pre=max(rpre); minpre=min(rpre)
    ANY=frozenset(range(ng))
    upats=[[frozenset(spec['classes'][c]) for c in r['pat']] for r in rules]
    pats=[[ANY]*(pre-rp)+up for rp,up in zip(rpre,upats)]
    # columns by membership signature
    allsets=sorted({s for p in pats for s in p}, key=lambda s:sorted(s))
    sig={}; 
    for g in range(ng):
        k=tuple(g in s for s in allsets)
        if any(k): sig.setdefault(k,[]).append(g)
    cols=list(sig.values()); col_of={g:i for i,gs in enumerate(cols) for g in gs}
    def cols_of_set(s): return {col_of[g] for g in s}
    # DFA
    start=frozenset((ri,0) for ri in range(len(rules)))
    starts=[frozenset((ri,k) for ri in range(len(rules)) if pre-rpre[ri]>=k) for k in range(pre-minpre+1)]
    assert starts[0]==start
    states={start:None}; order=[start]; trans={}
    q=[start]
    for S_ in starts[1:]:
        if S_ not in states: states[S_]=None; order.append(S_); q.append(S_)
    while q:
        S=q.pop(0)
        for c in range(len(cols)):
            T=frozenset((ri,pos+1) for (ri,pos) in S if pos<len(pats[ri]) and c in cols_of_set(pats[ri][pos]))
            if not T: continue
            if T not in states: states[T]=None; order.append(T); q.append(T)
            trans[(S,c)]=T
    acc=lambda S:[ri for (ri,pos) in sorted(S) if pos==len(pats[ri])]
    istr=lambda S:any((S,c) in trans for c in range(len(cols)))
    g1=[S for S in order if (istr(S) or S in starts) and not acc(S)]; g2=[S for S in order if istr(S) and acc(S)]; g3=[S for S in order if not istr(S) and acc(S)]
    if start in g2: raise ValueError('start state accepting (empty pattern)')
    g1.remove(start); g1.insert(0,start)
    allst=g1+g2+g3; idx={S:i for i,S in enumerate(allst)}
    numRows=len(allst); numTrans=len(g1)+len(g2); numSucc=len(g2)+len(g3)
    # ranges
    ranges=[]; 
    for g in sorted(col_of):
        if ranges and ranges[-1][1]==g-1 and ranges[-1][2]==col_of[g]: ranges[-1][1]=g
        else: ranges.append([g,g,col_of[g]])
    body=b''.join(be16(*r) for r in ranges)
    omap=[0]; rmap=[]
    for S in g2+g3:
        rmap+=acc(S); omap.append(len(rmap))
    body+=be16(*omap)+be16(*rmap)+u8(minpre,pre)+be16(*[idx[S_] for S_ in starts])
    body+=be16(*[len(p) for p in upats])+u8(*rpre)+u8(0)
    # code
    pcode=b''
    ccodes=[]; acodes=[]
    for r,p,pre_r in zip(rules,upats,rpre):
        L=len(p); cc=b''; n=0
        for k,e in enumerate(r.get('cons',[None]*L)):
            if e is None: continue
            b_=emit_expr(e); cc+=u8(OP['CNTXT_ITEM'],k-pre_r,len(b_))+b_
            if n: cc+=u8(OP['AND'])
            n+=1
        if cc: cc+=u8(OP['POP_RET'])
        ccodes.append(cc)
        ac=b''
        for k in range(pre_r,L):
            acts=r['acts'][k-pre_r]
            if acts and acts[0][0]=='insert':      # an inserted slot is an extra output item placed before input item k
                ac+=emit_action(acts[0])
                i_=1
                while i_<len(acts) and acts[i_][0]!='endins':
                    ac+=emit_action(acts[i_],1); i_+=1   # after INSERT the map pointer sits one input slot back: offsets +1
                ac+=u8(OP['NEXT']); acts=acts[i_+1:]
            for a in acts: ac+=emit_action(a)
            ac+=u8(OP['NEXT'])
        ret=r.get('ret',0)
        ac+= u8(OP['RET_ZERO']) if ret==0 else push(ret)+u8(OP['POP_RET'])
        acodes.append(ac)
    body+=be16(len(pcode))
    co=[]; blob=b'\0' if any(ccodes) else b''
    for cc in ccodes:
        if cc: co.append(len(blob)); blob+=cc
        else: co.append(0)
    co.append(len(blob)); cblob=blob
    body+=be16(*co)
    ao=[]; ablob=b''
    for ac in acodes: ao.append(len(ablob)); ablob+=ac
    ao.append(len(ablob)); body+=be16(*ao)
    for S in g1+g2:
        body+=be16(*[idx[trans[(S,c)]] if (S,c) in trans else 0 for c in range(len(cols))])
    body+=b'\0'
    pc=pass_off+40+len(body); rc=pc+len(pcode); acd=rc+len(cblob)
    hdr=u8(0,P.get('maxloop',5),max(len(p) for p in pats),0)+be16(len(rules),0)+be32(pc,rc,acd,0)+be16(numRows,numTrans,numSucc,len(cols),len(ranges),0,0,0)
    return hdr+body+pcode+cblob+ablob
def emit_action(a,ins=0):
    k=a[0]
    if k=='put_glyph': return u8(OP['PUT_GLYPH'])+be16(a[1])
    if k=='put_subs': return u8(OP['PUT_SUBS'],a[1]+ins)+be16(a[2])+be16(a[3])
    if k=='put_copy': return u8(OP['PUT_COPY'],a[1]+ins)
    if k=='insert': return u8(OP['INSERT'])
    if k=='delete': return u8(OP['DELETE'])
    if k=='assoc': return u8(OP['ASSOC'],len(a[1]),*[o+ins for o in a[1]])
    if k=='attr': return emit_expr(a[2])+u8(OP['ATTR_SET'],SLAT[a[1]])
    if k=='user': return emit_expr(a[2])+u8(OP['IATTR_SET'],SLAT['UserDefn'],a[1])
    if k=='attach': return push(a[1]+ins)+u8(OP['ATTR_SET_SLOT'],SLAT['AttTo'])
    raise ValueError(a)
def silf(spec):
    ng=len(spec['glyphs']); passes=spec['passes']; np_=len(passes)
    nsub=sum(1 for p in passes if p['type']=='sub')
    pre=be32(0x00040000)+be16(0,0)
    s=be16(ng-1,0,0)+u8(np_,0,nsub,np_,0xFF,0, 2,2, 0,1,2,3,0, 0)
    s+=be16(0)+u8(spec.get('user',0),0,1+spec.get('dir',0),0, 0,0,0, 0, 0, 0)+be16(0)
    pre+=s
    classes=spec['classes']; ncls=len(classes); nlin=spec.get('nlinear',ncls)
    # classes[0:nlin] linear, classes[nlin:] lookup (sorted by glyph, index = position in the ordered list)
    off0=4+4*(ncls+1); offs=[off0]; data=b''
    for ci,c in enumerate(classes):
        if ci<nlin: data+=be16(*c)
        else:
            n=len(c); sr=1
            while sr*2<=n: sr*=2
            es=sr.bit_length()-1
            lie=spec.get('lie',{}).get(ci,0)
            data+=be16(n+lie,sr,es,n-sr+lie)+b''.join(be16(g,i) for g,i in sorted((g,i) for i,g in enumerate(c)))
        offs.append(off0+len(data))
    cm=be16(ncls,nlin)+be32(*offs)+data
    after=be16(0,0,0,0)+cm
    pstart=len(pre)+4*(np_+1)+len(after)
    pb=[]; cur=pstart; offsets=[cur]
    for P in passes:
        b_=build_pass(P,spec,cur); pb.append(b_); cur+=len(b_); offsets.append(cur)
    sub=pre+be32(*offsets)+after+b''.join(pb)
    return be32(0x00040000,0x00050000)+be16(1,0)+be32(16)+sub
def build_font(spec):
    gl=spec['glyphs']; ng=len(gl)
    head=be32(0x00010000,0x00010000,0,0x5F0F3CF5)+be16(0,1000)+b'\0'*16+be16(0,0,1000,1000,0,8,2,0,0)
    hhea=be32(0x00010000)+be16(800,-200,0,1000,0,0,1000,1,0,0,0,0,0,0,0,ng)
    maxp=be32(0x00010000)+be16(ng)+b'\0'*26
    hmtx=b''.join(be16(g['adv'],0) for g in gl)
    glyf=b''; loca=[]
    for g in gl:
        loca.append(len(glyf)//2); x0,y0,x1,y1=g.get('bbox',(0,0,g['adv'],700)); glyf+=be16(0,x0,y0,x1,y1)+b'\0\0'
    loca.append(len(glyf)//2); glyf+=b'\0'*12
    glat,gloc=glat_gloc([dict(g.get('attrs',{})) or {1:0} for g in gl], spec.get('nattrs',16))
    t={'head':head,'hhea':hhea,'maxp':maxp,'hmtx':hmtx,'glyf':glyf,'loca':be16(*loca),'cmap':cmap4(spec['cmap']),'Glat':glat,'Gloc':gloc,'Silf':silf(spec)}
    if spec.get('feats'): t['Feat']=feat_table(spec['feats'])
    return sfnt(t)
if __name__=='__main__':
    spec=json.load(open(sys.argv[1])); open(sys.argv[2],'wb').write(build_font(spec))
