// spike C11: exhaustive UTF-8 strings of length<=3 in exact-size heap buffers vs strict reference
#include <graphite2/Segment.h>
#include <cstdio>
#include <cstdlib>
#include <cstring>
#include <vector>
// strict decoder: returns length of well-formed sequence at p (1..4) or 0 if ill-formed/truncated; *trunc set if fails only because buffer ended
static int wf(const unsigned char*p,const unsigned char*e,unsigned&cp,bool&trunc){ trunc=false; unsigned c=p[0]; if(c<0x80){cp=c;return 1;} int n; unsigned lo=0x80,hi=0xBF; if(c>=0xC2&&c<=0xDF){n=2;cp=c&0x1F;} else if(c>=0xE0&&c<=0xEF){n=3;cp=c&0x0F; if(c==0xE0)lo=0xA0; if(c==0xED)hi=0x9F;} else if(c>=0xF0&&c<=0xF4){n=4;cp=c&0x07; if(c==0xF0)lo=0x90; if(c==0xF4)hi=0x8F;} else return 0;
  for(int i=1;i<n;i++){ if(p+i>=e){trunc=true;return 0;} unsigned d=p[i]; unsigned l=(i==1)?lo:0x80,h=(i==1)?hi:0xBF; if(d<l||d>h) return 0; cp=(cp<<6)|(d&0x3F);} return n; }
int main(int argc,char**argv){ int maxlen=atoi(argv[1]); long stride=argc>2?atol(argv[2]):1; long total=0,viol=0,k=0; long kinds[4]={0,0,0,0};
  for(int len=0;len<=maxlen;len++){ long N=1; for(int i=0;i<len;i++) N*=256; for(long v=0;v<N;v++){ if(len==3 && (k++ % stride)) continue; unsigned char*b=(unsigned char*)malloc(len?len:1); for(int i=0;i<len;i++) b[i]=(v>>(8*(len-1-i)))&255; const unsigned char*e=b+len; total++;
      const void*err=(void*)1; size_t n=gr_count_unicode_characters(gr_utf8,b,e,&err);
      // reference
      size_t cnt=0; const unsigned char*p=b; bool ill=false; const unsigned char*illat=0; while(p<e&&*p){ unsigned cp; bool tr; int l=wf(p,e,cp,tr); if(!l){ill=true;illat=p;break;} p+=l; cnt++; }
      // does buffer end in truncated multi-unit sequence? scan whole buffer tail: find last lead byte
      bool tailtrunc=false; { // buffer ends in a truncated sequence if some suffix of length 1..3 is a proper prefix of a well-formed sequence
        for(int sfx=1;sfx<=3&&sfx<=len;sfx++){ const unsigned char*q=e-sfx; if(q[0]<0xC0) continue; bool conts=true; for(int i=1;i<sfx;i++) if((q[i]&0xC0)!=0x80) conts=false; int need=q[0]>=0xF0?4:(q[0]>=0xE0?3:2); if(conts&&sfx<need) tailtrunc=true; } }
      int kind;
      if(!ill && !tailtrunc){ kind=0; if(n!=cnt||err!=0){ viol++; if(viol<8) printf("V(i) len=%d bytes=%02x %02x %02x n=%zu want=%zu err=%p\n",len,len>0?b[0]:0,len>1?b[1]:0,len>2?b[2]:0,n,cnt,err);} }
      else if(ill){ kind=1; if(err==0){ viol++; if(viol<8) printf("V(ii) ill-formed not reported len=%d bytes=%02x %02x %02x n=%zu\n",len,len>0?b[0]:0,len>1?b[1]:0,len>2?b[2]:0,n);} }
      else kind=2;
      if(err!=0){ if((const unsigned char*)err<b||(const unsigned char*)err>=e+(len==0)) { viol++; if(viol<8) printf("V(iii) err outside buffer\n"); } if(n>cnt){ viol++; if(viol<8) printf("V(iii) count %zu > %zu\n",n,cnt);} }
      kinds[kind]++; free(b);} }
  printf("buffers=%ld wellformed=%ld illformed=%ld tail-truncated-only=%ld violations=%ld\n",total,kinds[0],kinds[1],kinds[2],viol); return 0; }
