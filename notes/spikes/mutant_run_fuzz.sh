#!/bin/sh
name=$1; file=$2; expr=$3
S=/tmp/probe/mut/$name; rm -rf $S; mkdir -p $S/o $S/corp; cp -r /repo/src $S/src
sed -i "$expr" $S/src/$file
if diff -q /repo/src/$file $S/src/$file >/dev/null; then echo "MUTANT $name: no change"; exit 1; fi
for f in $(ls $S/src/*.cpp | grep -v -e call_machine -e json.cpp); do echo $f; done | xargs -P16 -I{} sh -c "clang++ -std=c++11 -O1 -g -fno-rtti -fno-exceptions -fsanitize=fuzzer-no-link,address,undefined -fno-sanitize-recover=all -DGRAPHITE2_NTRACING -DGRAPHITE2_STATIC -I/repo/include -I$S/src -c {} -o $S/o/\$(basename {} .cpp).o" 2>/dev/null && ar rcs $S/libgr.a $S/o/*.o
clang++ -std=c++11 -O1 -g -fsanitize=fuzzer,address,undefined -fno-sanitize-recover=all -I/repo/include /verif/notes/spikes/fuzz_small_font_target.cpp $S/libgr.a -o $S/fz || exit 1
cp /verif/work/fz/seeds/* $S/corp/
cd $S && start=$(date +%s) && timeout 300 ./fz corp -runs=300000 -max_len=8192 -jobs=16 -workers=16 >/dev/null 2>&1; end=$(date +%s)
crashes=$(ls $S/crash-* 2>/dev/null | wc -l); first=$(grep -l "ERROR: AddressSanitizer\|runtime error" $S/fuzz-*.log 2>/dev/null | head -1)
echo "MUTANT $name: crashes=$crashes wall=$((end-start))s $( [ -n "$first" ] && grep -m1 -h "ERROR: AddressSanitizer\|runtime error" $first | cut -c1-150)"
rm -rf $S
