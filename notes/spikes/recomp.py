import struct, sys, random
sys.path.insert(0,'/verif/work/lz')
import lz4ref
def tables(d):
    nt=struct.unpack('>H',d[4:6])[0]; t={}
    for i in range(nt):
        tag,cs,off,ln=struct.unpack('>4sIII',d[12+16*i:28+16*i]); t[tag.decode('latin1')]=d[off:off+ln]
    return t
def sfnt(tables):
    tags=sorted(tables); n=len(tags); off=12+16*n; dirb=b''; body=b''
    for t in tags:
        x=tables[t]; dirb+=t.encode('latin1')+struct.pack('>III',0,off+len(body),len(x)); body+=x+b'\0'*((-len(x))%4)
    return struct.pack('>IHHHH',0x00010000,n,0,0,0)+dirb+body
def decompress_table(x):
    ver,hdr=struct.unpack('>II',x[:8]); scheme=hdr>>27; size=hdr&0x07ffffff
    if scheme==0: return x
    assert scheme==1
    p=lz4ref.decode(x[8:]); assert len(p)==size, (len(p),size); assert struct.unpack('>I',p[:4])[0]==ver
    return p
def compress_table(p, rng=None, greedy=True):
    c=lz4ref.encode(p,rng,greedy); assert lz4ref.decode(c)==p
    return p[:4]+struct.pack('>I',(1<<27)|len(p))+c
src=sys.argv[1]; d=open(src,'rb').read(); t=tables(d)
u=dict(t); u['Silf']=decompress_table(t['Silf']); u['Glat']=decompress_table(t['Glat'])
print('Silf',len(t['Silf']),'->',len(u['Silf']),'Glat',len(t['Glat']),'->',len(u['Glat']))
open('/verif/work/lz/u.ttf','wb').write(sfnt(u))
rng=random.Random(int(sys.argv[2]))
c=dict(u); c['Silf']=compress_table(u['Silf'],rng,False); c['Glat']=compress_table(u['Glat'],rng,False)
print('recompressed Silf',len(c['Silf']),'Glat',len(c['Glat']))
open('/verif/work/lz/c.ttf','wb').write(sfnt(c))
