#!/bin/bash
# usage: verify_seed.sh <worktree> — confirm a sub-agent's seeded change myself:
#   (1) worktree diff == seed/patch.diff and the patch applies to the pristine tree, (2) build + ctest with the change: 87 pass / same 6 fail,
#   (3) demo fails with the change, (4) demo passes without it.   Prints a one-line verdict and leaves the worktree WITHOUT the change.
wt=$1
cd $wt || exit 2
git diff -- src include > $wt/seed/.vs_cur.diff
if ! diff -q $wt/seed/.vs_cur.diff seed/patch.diff >/dev/null; then echo "NOTE: worktree diff differs from seed/patch.diff; resetting to patch"; git checkout -- src include; git apply seed/patch.diff || { echo "VERDICT $wt patch-does-not-apply"; exit 1; }; fi
cmake -G Ninja -S $wt -B $wt/_build -DCMAKE_BUILD_TYPE=Release >/dev/null 2>&1
cmake --build $wt/_build >/dev/null 2>&1 || { echo "VERDICT $wt build-failed"; exit 1; }
res=$(ctest --test-dir $wt/_build -j8 --timeout 900 2>&1)
passed=$(echo "$res" | grep -o "[0-9]* tests failed out of [0-9]*")
failing=$(echo "$res" | grep "(Failed)\|(Timeout)\|(SEGFAULT)\|Exception" | awk '{print $3}' | sort | tr '\n' ' ')
bash seed/run.sh >$wt/seed/.vs_with.log 2>&1; with=$?
git apply -R seed/patch.diff || { echo "VERDICT $wt cannot-revert"; exit 1; }
bash seed/run.sh >$wt/seed/.vs_without.log 2>&1; without=$?
echo "VERDICT $wt tests=[$passed] failing=[$failing] demo_with_change_exit=$with demo_without_change_exit=$without"
