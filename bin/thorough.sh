#!/bin/bash
# runs every thorough check once (evidence redirected to work/thorough/ev), log in work/thorough/log.txt
cd /verif; mkdir -p work/thorough
for p in ${@:-C20 C19 C18 C17 C15 C12 C11 C10 C08 C13 C14 C07 C06 C05 C04 C03 C09 C16 C02 C01}; do
  start=$(date +%s)
  out=$(VERIF_SEED=1 VERIF_EVIDENCE_DIR=/verif/work/thorough/ev python3 bin/vcheck $p --tier thorough 2>&1); rc=$?
  echo "$p exit=$rc wall=$(( $(date +%s) - start ))s $(echo "$out" | grep -v '^KNOWN-FINDING' | tail -1 | cut -c1-170)" >> work/thorough/log.txt
  if [ $rc -ne 0 ]; then echo "$out" | grep -v '^KNOWN-FINDING' | tail -25 > work/thorough/fail-$p.txt; fi
done
echo "THOROUGH DONE $(date)" >> work/thorough/log.txt
