#!/bin/bash
# usage: import_seed.sh <worktree> <Sid-name> <property> "<what>" "<needs>"   — copies seed/ files of a confirmed sub-agent change into seeded/<Sid-name>/ with meta.json
wt=$1; id=$2; prop=$3; what=$4; needs=$5
d=/verif/seeded/$id; mkdir -p $d
for f in patch.diff demo.cpp run.sh notes.md; do [ -f $wt/seed/$f ] && cp $wt/seed/$f $d/; done
for f in $wt/seed/*.py $wt/seed/*.c; do [ -f "$f" ] && cp $f $d/; done
python3 - "$d" "$id" "$prop" "$what" "$needs" <<'P'
import json,sys
d,id_,prop,what,needs=sys.argv[1:6]
json.dump({"id":id_,"property":prop,"what":what,"needs_to_manifest":needs,
 "origin":"independent sub-agent (round 2) given only the property text and a scratch worktree",
 "confirmed_by_me":"bin/verify_seed.sh in the scratch worktree: patch applies to the pristine tree; cmake build + ctest with the change = 87 pass, same 6 failing (annacmp1 awamicmp1 chariscmp1 chariscmp2 padaukcmp1 schercmp1); seed/run.sh exits non-zero with the change and 0 without it"},
 open(d+'/meta.json','w'),indent=1)
P
echo imported $d
