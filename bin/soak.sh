#!/bin/bash
# multi-seed silence soak of every quick check; evidence goes to work/soak/, output to work/soak/log.txt
cd /verif; mkdir -p work/soak
for s in ${@:-2 3 7 1000003}; do
  for p in C01 C02 C03 C04 C05 C06 C07 C08 C09 C10 C11 C12 C13 C14 C15 C16 C17 C18 C19 C20; do
    out=$(VERIF_SEED=$s VERIF_EVIDENCE_DIR=/verif/work/soak/ev python3 bin/vcheck $p --tier quick 2>&1); rc=$?
    echo "seed=$s $p exit=$rc $(echo "$out" | grep -v '^KNOWN-FINDING' | tail -1 | cut -c1-160)" >> work/soak/log.txt
    if [ $rc -ne 0 ]; then echo "$out" | grep -v '^KNOWN-FINDING' | tail -20 >> work/soak/fail-$s-$p.txt; fi
  done
done
echo "SOAK DONE $(date)" >> work/soak/log.txt
