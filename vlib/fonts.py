"""Shipped fonts and texts of the repository under test (paths resolved against $VERIF_REPO)."""
import os
from . import build

FONTDIR = os.path.join(build.REPO, 'tests', 'fonts')
TEXTDIR = os.path.join(build.REPO, 'tests', 'texts')

# font -> text file written for it (tests/CMakeLists.txt pairings), rtl flag
SHIPPED = [
    ('Padauk.ttf', 'my_HeadwordSyllables.txt', 0),
    ('charis_r_gr.ttf', 'udhr_eng.txt', 0),
    ('charis_fast.ttf', 'udhr_yor.txt', 0),
    ('Charis5_eursub.ttf', 'udhr_eng.txt', 0),
    ('Scheherazadegr.ttf', 'udhr_arb.txt', 1),
    ('Scheherazadegr_noglyfs.ttf', 'udhr_arb.txt', 1),
    ('Annapurnarc2.ttf', 'udhr_nep.txt', 0),
    ('MagyarLinLibertineG.ttf', 'udhr_eng.txt', 0),
    ('PigLatinBenchmark_v3.ttf', 'udhr_eng.txt', 0),
    ('general.ttf', 'test_small.txt', 0),
    ('grtest1gr.ttf', 'test_small.txt', 0),
    ('small.ttf', 'test_small.txt', 0),
    ('underflow.ttf', 'test_small.txt', 0),
    ('Awami_test.ttf', 'awami_tests.txt', 1),
    ('Awami_compressed_test.ttf', 'awami_tests.txt', 1),
    ('AwamiNastaliq-Regular.ttf', 'awami_tests.txt', 1),
]
# tiny.ttf has no Graphite tables that load; it is used for the loader checks only.


def font(name):
    return os.path.join(FONTDIR, name)


def text(name):
    return os.path.join(TEXTDIR, name)


def shipped(small_only=False):
    out = []
    for f, t, rtl in SHIPPED:
        p = font(f)
        if os.path.exists(p):
            if small_only and os.path.getsize(p) > 400000:
                continue
            out.append((p, text(t), rtl))
    return out
