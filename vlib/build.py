"""Content-addressed sanitizer builds of the library under test and of the harnesses.

Everything is rebuilt from $VERIF_REPO's *working tree* (default /repo): the key of a
build is the hash of src/**, include/** and the flag set, so an edited tree gives a new
build and an unchanged tree reuses the cached one (work/ is scratch and may be deleted
at any time).  The CMake tree in /repo/_build is never used here.
"""
import fcntl
import hashlib
import os
import shutil
import subprocess
import sys
import time
from concurrent.futures import ThreadPoolExecutor

VERIF = os.path.dirname(os.path.dirname(os.path.abspath(__file__)))
REPO = os.environ.get('VERIF_REPO', '/repo')
WORK = os.environ.get('VERIF_WORK', os.path.join(VERIF, 'work'))
GUARD = 'GRAPHITE2_VERIF'

COMMON = ['-g', '-fno-omit-frame-pointer', '-fno-rtti', '-fno-exceptions',
          '-DGRAPHITE2_NTRACING', '-DGRAPHITE2_STATIC']

FLAVOURS = {
    # name: (compiler, flags, machine, hooks)
    'asan': ('g++', ['-O1', '-fsanitize=address,undefined', '-fno-sanitize-recover=all'], 'direct', True),
    'asan-call': ('g++', ['-O1', '-fsanitize=address,undefined', '-fno-sanitize-recover=all'], 'call', True),
    'tsan': ('g++', ['-O1', '-fsanitize=thread'], 'direct', True),
    'plain': ('g++', ['-O2'], 'direct', False),
    'plain-hooks': ('g++', ['-O2'], 'direct', True),
    'fuzz': ('clang++', ['-O1', '-fsanitize=fuzzer-no-link,address,undefined',
                         '-fno-sanitize-recover=all', '-fno-sanitize=object-size'], 'direct', True),
}


class BuildError(Exception):
    pass


def _tree_files():
    out = []
    for sub in ('src', 'src/inc', 'include/graphite2'):
        d = os.path.join(REPO, sub)
        for fn in sorted(os.listdir(d)):
            if fn.endswith(('.cpp', '.h')):
                out.append(os.path.join(d, fn))
    return out


_tree_hash_cache = None


def tree_hash():
    global _tree_hash_cache
    if _tree_hash_cache is None:
        h = hashlib.sha1()
        for fn in _tree_files():
            h.update(fn.encode())
            with open(fn, 'rb') as f:
                h.update(hashlib.sha1(f.read()).digest())
        _tree_hash_cache = h.hexdigest()[:16]
    return _tree_hash_cache


def _flags(flavour, std='-std=c++11'):
    cc, fl, machine, hooks = FLAVOURS[flavour]
    flags = [std] + COMMON + fl + ['-I' + os.path.join(REPO, 'include'), '-I' + os.path.join(REPO, 'src')]
    if hooks:
        flags.append('-D' + GUARD)
    return cc, flags, machine


def build_root():
    return os.path.join(WORK, 'build', tree_hash())


def prune_old_builds(keep=3):
    """Keep only the most recent tree hashes (disk is limited)."""
    root = os.path.join(WORK, 'build')
    if not os.path.isdir(root):
        return
    cur = tree_hash()
    ents = [(os.path.getmtime(os.path.join(root, d)), d) for d in os.listdir(root)
            if os.path.isdir(os.path.join(root, d)) and d != cur]
    ents.sort(reverse=True)
    import time
    for mt, d in ents[keep - 1:]:
        # never a build touched in the last two hours: another check (another tree, e.g. a seeded-change run) may be using it
        if time.time() - mt > 2 * 3600:
            shutil.rmtree(os.path.join(root, d), ignore_errors=True)


class _Lock:
    def __init__(self, path):
        self.path = path

    def __enter__(self):
        os.makedirs(os.path.dirname(self.path), exist_ok=True)
        self.f = open(self.path, 'w')
        fcntl.flock(self.f, fcntl.LOCK_EX)

    def __exit__(self, *a):
        fcntl.flock(self.f, fcntl.LOCK_UN)
        self.f.close()


def _run(cmd):
    p = subprocess.run(cmd, capture_output=True, text=True)
    if p.returncode != 0:
        raise BuildError('command failed: %s\n%s' % (' '.join(cmd), (p.stdout + p.stderr)[-6000:]))


def lib(flavour):
    """Build (or reuse) libgr.a for this flavour; returns its directory."""
    d = os.path.join(build_root(), flavour)
    target = os.path.join(d, 'libgr.a')
    try:
        os.utime(build_root(), None)         # "in use" mark for prune_old_builds
    except OSError:
        pass
    if os.path.exists(target):
        return d
    with _Lock(os.path.join(build_root(), '.lock-' + flavour)):
        if os.path.exists(target):
            return d
        cc, flags, machine = _flags(flavour)
        od = os.path.join(d, 'o')
        os.makedirs(od, exist_ok=True)
        skip = {'json.cpp', 'call_machine.cpp' if machine == 'direct' else 'direct_machine.cpp'}
        srcs = [f for f in sorted(os.listdir(os.path.join(REPO, 'src'))) if f.endswith('.cpp') and f not in skip]
        jobs = []
        for s in srcs:
            o = os.path.join(od, s[:-4] + '.o')
            jobs.append([cc] + flags + ['-c', os.path.join(REPO, 'src', s), '-o', o])
        with ThreadPoolExecutor(16) as ex:
            list(ex.map(_run, jobs))
        tmp = target + '.tmp%d' % os.getpid()
        _run(['ar', 'rcs', tmp] + [os.path.join(od, s[:-4] + '.o') for s in srcs])
        os.rename(tmp, target)
    return d


def harness(name, flavour, extra=(), libs=()):
    """Compile harness/<name>.cpp against the flavour's library; returns the executable path."""
    src = os.path.join(VERIF, 'harness', name + '.cpp')
    h = hashlib.sha1()
    for fn in [src] + [os.path.join(VERIF, 'harness', f) for f in sorted(os.listdir(os.path.join(VERIF, 'harness')))
                        if f.endswith('.hpp')]:
        with open(fn, 'rb') as f:
            h.update(f.read())
    h.update(repr(extra).encode())
    d = lib(flavour)
    exe = os.path.join(d, '%s-%s' % (name, h.hexdigest()[:10]))
    if os.path.exists(exe):
        return exe
    with _Lock(os.path.join(build_root(), '.lock-%s-%s' % (flavour, name))):
        if os.path.exists(exe):
            return exe
        cc, flags, _ = _flags(flavour, '-std=gnu++17')
        if flavour == 'fuzz':
            flags = [f.replace('fuzzer-no-link', 'fuzzer') for f in flags]
        tmp = exe + '.tmp%d' % os.getpid()
        _run([cc] + flags + ['-I' + os.path.join(VERIF, 'harness'), '-DVERIF_FLAVOUR="%s"' % flavour] + list(extra) +
             [src, os.path.join(d, 'libgr.a'), '-o', tmp, '-lpthread', '-ldl'] + list(libs))
        os.rename(tmp, exe)
    return exe


if __name__ == '__main__':
    t = time.time()
    for fl in sys.argv[1:] or ['asan']:
        print(fl, lib(fl), '%.1fs' % (time.time() - t))
