"""Seeded generators of GDL-lite specs.

gen_spec      well-formed programs inside the C06 subset (the reference interpreter covers them)
hostile_spec  programs that still pass every load-time check but are adversarial (C02..C05): attach / put_copy / assoc
              in every pass type, cursor moves -3..+3, maxRuleLoop up to 255, insert storms, long rules, deep chains
vary_container  random table-format variation (Silf v2..v5, Glat v1..v3, Gloc short/long, attribute ids, Feat v1/v2,
              lookup classes) that must not change behaviour
"""
import itertools

C06_ALL = ('assoc', 'ret', 'cons', 'pre', 'delete', 'insert', 'attach', 'rtl', 'copy', 'lookup', 'noassoc', 'multi', 'mixed', 'feat')


def base_glyphs(rng, ng=13):
    glyphs = [{'adv': 500, 'attrs': {1: 0}}]
    for g in range(1, ng):
        glyphs.append({'adv': 300 + 50 * g, 'attrs': {1: 0, 4: rng.randrange(0, 4), 5: rng.randrange(-2, 3)}})
    return glyphs


def gen_spec(rng, allow):
    allow = set(allow)
    glyphs = base_glyphs(rng)
    ncls = rng.randrange(3, 8)
    classes = []
    for _ in range(ncls):
        k = rng.randrange(1, 6)
        classes.append(rng.sample(range(1, 13), k))
    passes = []
    nfeat = 2 if 'feat' in allow else 0
    for pi in range(rng.randrange(1, 4)):
        pre = rng.randrange(0, 3) if 'pre' in allow else 0
        rules = []
        for ri in range(rng.randrange(1, 6)):
            ppre = pre
            if 'mixed' in allow:
                pre = rng.randrange(0, 3)
            L = pre + rng.randrange(1, 4)
            pat = [rng.randrange(ncls) for _ in range(L)]
            acts = []
            for k in range(pre, L):
                a = []
                r = rng.random()
                if r < 0.25:
                    a.append(('put_glyph', rng.randrange(ncls)))
                elif r < 0.45:
                    off = rng.randrange(-k, L - k)
                    incl = pat[k + off]
                    cands = [c for c in range(ncls) if len(classes[c]) >= len(classes[incl])]
                    a.append(('put_subs', off, incl, rng.choice(cands)))
                elif r < 0.55 and 'delete' in allow:
                    a.append(('delete',))
                elif r < 0.65 and 'insert' in allow:
                    a.append(('insert',))
                    a.append(('put_glyph', rng.randrange(ncls)))
                    if not ('noassoc' in allow and rng.random() < 0.5):
                        a.append(('assoc', [rng.choice([o for o in range(-k, L - k) if not (o < 0 and k + o - pre >= 0 and False)] or [0])]))
                    a.append(('endins',))
                elif r < 0.75:
                    a.append(('attr', 'AdvX', ('const', rng.randrange(-50, 900))))
                elif r < 0.85:
                    a.append(('user', rng.randrange(2), ('const', rng.choice([-3, -2, -1, 1, 2, 3, 0]))))
                    if rng.random() < 0.5:
                        a.append(('user', rng.randrange(2), ('const', rng.randrange(1, 4))))
                elif r < 0.9 and 'copy' in allow:
                    off = rng.randrange(-k, L - k)
                    # Appendix B rule 4: never copy from an earlier item that this rule has already modified (the engine
                    # serves such reads from a temporary copy or from the live slot depending on its load-time analysis,
                    # and the documents do not define which)
                    # ... except when the earlier item only changed its *glyph* (put_glyph / put_subs): the loader's analysis then marks
                    # it changed-and-referenced and snapshots it (TEMP_COPY) before its actions run, so the copy reads the rule's
                    # input glyph, attributes, user attributes and associations - exactly the documented "input" semantics.
                    # (the reference interpreter now models the loader's temp-copy analysis exactly - fontlib/ref.py temp_copied() -
                    # so copies from earlier, already modified items are generated again: they are the classic reordering idiom)
                    if off != 0:
                        a.append(('put_copy', off))
                if a and a[0][0] != 'delete' and a[0][0] != 'insert' and rng.random() < 0.2:
                    a.append(('attr', 'ShiftX', ('gattr', 0, 4)))
                if (not a or (a[0][0] != 'delete' and a[0][0] != 'insert')) and 'assoc' in allow and rng.random() < 0.3:
                    # (an item that has just been overwritten by put_copy must not name itself: same rule-4 exclusion)
                    selfmod = False
                    a.append(('assoc', [rng.choice([o for o in range(-k, L - k) if not (o == 0 and selfmod) and not (o < 0 and k + o - pre >= 0 and False)] or [0]) for _ in range(rng.randrange(1, 4))]))
                acts.append(a)
            if 'copy' in allow and L - pre >= 2 and rng.random() < 0.12:
                # the classic reordering idiom: two items exchange their contents (both become changed-and-referenced, so both are
                # snapshotted); sometimes with a glyph substitution or an attribute on top
                i0 = rng.randrange(0, L - pre - 1)
                acts[i0] = [('put_copy', 1)]
                acts[i0 + 1] = [('put_copy', -1)]
                if rng.random() < 0.3:
                    acts[i0 + 1].append(('user', rng.randrange(2), ('uattr', -1, rng.randrange(2))))
                if rng.random() < 0.3:
                    acts[i0].append(('attr', 'AdvX', ('add', ('gattr', 1, 4), ('const', 100))))
            cons = [None] * L
            if 'cons' in allow:
                for k in range(L):
                    if rng.random() < 0.3:
                        choices = [('gattr', 0, 4), ('gattr', 0, 5), ('uattr', 0, 0), ('uattr', 0, 1)]
                        if nfeat:
                            choices += [('feat', 0, 0), ('feat', 0, 1)]
                        lhs = rng.choice(choices)
                        cons[k] = (rng.choice(['eq', 'ne', 'lt', 'gt', 'le', 'ge']), lhs, ('const', rng.randrange(-2, 4)))
                        if rng.random() < 0.2:
                            other = (rng.choice(['eq', 'ne', 'lt', 'gt']), rng.choice(choices), ('const', rng.randrange(-2, 4)))
                            cons[k] = (rng.choice(['and', 'or']), cons[k], other) if rng.random() < 0.7 else ('not', cons[k])
            rules.append({'pre': pre, 'pat': pat, 'acts': acts, 'cons': cons, 'ret': (rng.choice([0, 0, 0, -1, -2, 1, 2, -3]) if 'ret' in allow else 0)})
            pre = ppre
        passes.append({'type': 'sub', 'pre': pre, 'maxloop': (rng.choice([1, 2, 3, 5, 8]) if 'ret' in allow else 5), 'rules': rules})
        if 'mixed' in allow and rng.random() < 0.5:
            passes[-1]['loose_starts'] = True        # start states as the GDL compiler builds them (see gdl.build_pass)
    if 'attach' in allow:
        rules = []
        for ri in range(rng.randrange(1, 4)):
            L = rng.randrange(2, 4)
            pat = [rng.randrange(ncls) for _ in range(L)]
            acts = [[] for _ in range(L)]
            k = rng.randrange(L)
            o = rng.choice([x for x in range(-k, L - k) if x != 0])
            acts[k] = [('attach', o)]
            if rng.random() < 0.7:
                acts[k] += [('attr', rng.choice(['AttX', 'AttY', 'AttWithX', 'AttWithY']), ('const', rng.randrange(-200, 400)))]
            if rng.random() < 0.4:
                acts[k] += [('attr', 'ShiftY', ('const', rng.randrange(-100, 100)))]
            if rng.random() < 0.3:
                acts[rng.randrange(L)] += [('attr', 'AdvX', ('const', rng.choice([0, 0, -30, 200, 900])))]
            if 'multi' in allow and L >= 3 and rng.random() < 0.6:
                base = rng.randrange(L)
                for kk in range(L):
                    if kk != base:
                        acts[kk] = [('attach', base - kk), ('attr', rng.choice(['AttX', 'AttY', 'AttWithX']), ('const', rng.randrange(-300, 600)))]
                        if rng.random() < 0.5:
                            acts[kk].append(('attr', 'AdvX', ('const', rng.choice([0, 0, 100, 700]))))
            rules.append({'pat': pat, 'acts': acts, 'cons': [None] * L, 'ret': 0})
        passes.append({'type': 'pos', 'pre': 0, 'maxloop': 5, 'rules': rules})
    fdir = rng.randrange(2) if 'rtl' in allow else 0
    nlin = rng.randrange(0, ncls + 1) if 'lookup' in allow else ncls
    spec = {'nlinear': nlin, 'dir': fdir, 'glyphs': glyphs, 'cmap': {0x61 + i: 1 + i for i in range(6)}, 'nattrs': 8, 'user': 2,
            'classes': classes, 'passes': passes}
    if nfeat:
        spec['feats'] = [{'id': 0x66743031 + i, 'settings': [(v, 260 + v) for v in range(4)], 'label': 256 + i} for i in range(nfeat)]
    return spec


def vary_container(rng, spec):
    """Table-format variation that must be behaviour-neutral."""
    spec['silf_version'] = rng.choice([2, 3, 4, 5])
    spec['glat_version'] = rng.choice([1, 2, 3])
    spec['gloc_long'] = rng.random() < 0.5
    spec['gloc_attrids'] = rng.random() < 0.3
    spec['glat_runs'] = rng.choice(['max', 'max', 'single', 'split'])       # legal, equivalent encodings of the attribute runs
    spec['glat_dense'] = rng.choice([False, False, 'odd', 'late', 'all'])            # default (0) values stored explicitly, for all / some glyphs
    spec['loca_long'] = rng.random() < 0.3
    if spec.get('feats') and 'feat_version' not in spec:
        spec['feat_version'] = rng.choice([1, 2])
        if spec['feat_version'] == 1:
            for i, f in enumerate(spec['feats']):
                f['id'] = 100 + i
    return spec


def strings_for(rng, alphabet='abcdef', short='abc', maxshort=3, nrandom=30, maxlen=14):
    ss = [''.join(p) for n in range(1, maxshort + 1) for p in itertools.product(short, repeat=n)]
    ss += [''.join(rng.choice(alphabet) for _ in range(rng.randrange(4, maxlen))) for _ in range(nrandom)]
    return ss


def hostile_spec(rng):
    spec = gen_spec(rng, set("assoc,ret,cons,pre,delete,insert,attach,rtl,copy,lookup,noassoc,multi,mixed".split(',')))
    ncls = len(spec['classes'])
    kind = rng.randrange(10)
    # re-association (ASSOC / PUT_COPY) inside positioning passes only in a minority of fonts: the engine computes
    # character coverage before those passes (known finding), and the other fonts must keep that clause judged
    pa_ok = rng.random() < 0.2
    for P in spec['passes']:
        P['maxloop'] = rng.choice([1, 3, 20, 255])
        reassoc = P['type'] == 'sub' or pa_ok
        for r in P['rules']:
            L = len(r['pat'])
            pre = r.get('pre', P.get('pre', 0))
            for k in range(pre, L):
                a = r['acts'][k - pre]
                if a and a[0][0] in ('insert', 'delete'):
                    continue
                x = rng.random()
                if x < 0.3:
                    # (offset 0 = attach to itself, occasionally: the engine must refuse it without detaching anything it should not)
                    o = rng.choice([o for o in range(-k, L - k) if o != 0 or rng.random() < 0.3] or [None])
                    if o is not None:
                        a.append(('attach', o))
                if x > 0.8 and reassoc:
                    o = rng.choice([o for o in range(-k, L - k) if o != 0] or [None])
                    if o is not None:
                        a.insert(0, ('put_copy', o))
                if rng.random() < 0.2 and reassoc:
                    a.append(('assoc', [rng.randrange(-k, L - k) for _ in range(rng.randrange(1, 4))]))
                if rng.random() < 0.15:
                    a.append(('attr', rng.choice(['AdvX', 'AdvY', 'ShiftX', 'ShiftY', 'AttX', 'AttWithY']), ('const', rng.choice([-32768, 32767, 0, -1, 20000]))))
                if rng.random() < 0.1:
                    o = rng.randrange(-k, L - k)
                    a.append(('attr', 'AdvX', (rng.choice(['add', 'sub', 'mul', 'min', 'max']), ('sattr', o, rng.choice(['AdvX', 'ShiftX', 'AttX', 'Break', 'Insert'])), ('const', rng.randrange(-5, 300)))))
            r['ret'] = rng.choice([0, 0, -1, -2, -3, 1, 3])
    # slot-attribute sweep: writes and reads of EVERY attribute code the loader accepts (0..77; justification attributes 25+5*level for
    # levels the font has and has not, collision and sequence attributes with and without collision info, CompRef indices), in every pass type
    if rng.random() < 0.6:
        nlev = rng.choice([0, 1, 1, 1, 2, 3, 4])
        if nlev:
            spec['nattrs'] = max(spec.get('nattrs', 8), 32)
            spec['jlevels'] = [(8 + 4 * l, 9 + 4 * l, 10 + 4 * l, 11 + 4 * l) for l in range(nlev)]
        hot = [25 + 5 * nlev + j for j in range(5)] + [25 + 5 * max(nlev - 1, 0) + j for j in range(5)]       # first missing level / last present level
        for P in spec['passes']:
            for r in P['rules']:
                L = len(r['pat'])
                pre = r.get('pre', P.get('pre', 0))
                for k in range(pre, L):
                    a = r['acts'][k - pre]
                    if (a and a[0][0] in ('insert', 'delete')) or rng.random() > 0.4:
                        continue
                    an = rng.choice(hot) if rng.random() < 0.5 else rng.choice([c for c in range(0, 78) if c != 55 and c != 2])
                    if rng.random() < 0.7:
                        val = ('const', rng.choice([0, 1, -1, 7, 300, 32767, -32768]))
                        if an <= 29 and rng.random() < 0.3:
                            a.append(('rawattr', rng.choice(['IATTR_SET', 'IATTR_ADD', 'IATTR_SUB']), an, rng.choice([0, 0, 1, 254]) if an == 15 else 0, val))
                        else:
                            a.append(('rawattr', rng.choice(['ATTR_SET', 'ATTR_SET', 'ATTR_ADD', 'ATTR_SUB']), an, None, val))
                    else:
                        o = rng.randrange(-k, L - k)
                        src = ('rawsattr', o, an) if an > 29 or rng.random() < 0.6 else ('rawisattr', o, an, rng.choice([0, 0, 1, 200]) if an == 15 else 0)
                        a.append(('attr', rng.choice(['AdvX', 'ShiftY']), src))
    if kind == 0 and spec['passes'][0]['type'] == 'sub':
        # insert storm: every 'a' becomes two glyphs again and again (64x growth cap / insert budget)
        c = 0
        spec['passes'][0]['rules'].insert(0, {'pre': 0, 'pat': [c], 'acts': [[('insert',), ('put_glyph', c), ('endins',)]], 'cons': [None],
                                              'ret': rng.choice([0, -1, -1])})
        spec['passes'][0]['maxloop'] = 255
    elif kind == 1:
        # one long rule over ANY (up to the 63-item sort-key limit) that touches its far ends
        L = rng.choice([20, 40, 62, 63])
        acts = [[] for _ in range(L)]
        tp = spec['passes'][-1] if pa_ok else spec['passes'][0]
        if tp['type'] == 'sub' or pa_ok:
            acts[0] = [('assoc', [L - 1])]
        acts[L - 1] = [('attach', -(L - 1))] if (rng.random() < 0.5 or not (tp['type'] == 'sub' or pa_ok)) else [('put_copy', -(L - 1))]
        tp['rules'].append({'pre': 0, 'pat': [-1] * L, 'acts': acts, 'cons': [None] * L, 'ret': 0})
    elif kind == 2:
        # attachment chain builder: each slot attaches to the previous one (depth guards at 100)
        c = rng.randrange(ncls)
        spec['passes'].append({'type': 'pos', 'pre': 1, 'maxloop': 3, 'rules': [
            {'pre': 1, 'pat': [-1, -1], 'acts': [[('attach', -1), ('attr', 'AttX', ('const', 10))]], 'cons': [None, None], 'ret': 0}]})
        if rng.random() < 0.5:
            # the same pass again: every glyph is re-attached to the parent it already has
            spec['passes'].append({'type': 'pos', 'pre': 1, 'maxloop': 3, 'rules': [
                {'pre': 1, 'pat': [-1, -1], 'acts': [[('attach', -1)]], 'cons': [None, None], 'ret': 0}]})
    elif kind == 3:
        # mutual / re-attachment in both directions inside one rule
        spec['passes'].append({'type': 'pos', 'pre': 0, 'maxloop': 5, 'rules': [
            {'pre': 0, 'pat': [-1, -1, -1], 'acts': [[('attach', 1)], [('attach', 1)], [('attach', -2)]], 'cons': [None] * 3, 'ret': rng.choice([0, -2])}]})
    if rng.random() < 0.25:
        # some (or all) of the leading substitution passes become line-break passes: the loader accepts the same opcodes there
        nsub = sum(1 for P in spec['passes'] if P['type'] == 'sub')
        for P in spec['passes'][:rng.randrange(1, nsub + 1) if nsub else 0]:
            if P['type'] == 'sub':
                P['type'] = 'lb'
    if kind in (5, 6) and spec['passes'][0]['type'] in ('sub', 'lb'):
        # a slot that is changed, deleted AND referred to by a later item of the same rule: the loader snapshots it (temp copy), so the
        # deleted slot is not the one in the rule's slot map when the rule's garbage is collected - at the first / last slot of the
        # segment the first/last pointers are then maintained by the opcode alone
        c = rng.randrange(ncls)
        first = [('put_glyph', c), ('delete',)] if rng.random() < 0.7 else [('assoc', [0, 1]), ('delete',)]
        second = [('put_copy', -1)] if kind == 5 else [('attr', 'AdvX', ('add', ('sattr', -1, 'AdvX'), ('const', 10)))]
        rule = {'pre': 0, 'pat': [-1, -1], 'acts': [first, second], 'cons': [None, None], 'ret': rng.choice([0, 0, -1])}
        if rng.random() < 0.5:
            rule = {'pre': 0, 'pat': [-1, -1], 'acts': [second[:0] + [('put_copy', 1)] if kind == 5 else [], [('put_glyph', c), ('delete',)]], 'cons': [None, None], 'ret': 0}    # ... and the mirror image (last slot)
        spec['passes'][0]['rules'].insert(rng.randrange(0, len(spec['passes'][0]['rules']) + 1), rule)
    if kind == 7 and spec['passes'][0]['type'] in ('sub', 'lb'):
        # attachments made in the substitution phase, then a rule that inserts a COPY of a glyph that already has children (and, in
        # half of the fonts, deletes or re-copies an attached glyph): what the copy does with parent / child / sibling pointers
        c = rng.randrange(ncls)
        t0 = spec['passes'][0]['type']
        att = {'type': t0, 'pre': 0, 'maxloop': 2, 'rules': [{'pre': 0, 'pat': [c, -1, -1], 'acts': [[], [('attach', -1)], [('attach', -2)]], 'cons': [None] * 3, 'ret': 0}]}
        second = [[('insert',), ('put_copy', 0), ('endins',)]] if rng.random() < 0.6 else [[('put_copy', 0)]]
        cp = {'type': t0, 'pre': 0, 'maxloop': 2, 'rules': [{'pre': 0, 'pat': [c], 'acts': second, 'cons': [None], 'ret': 0}]}
        if rng.random() < 0.5:
            cp['rules'].append({'pre': 0, 'pat': [-1, -1], 'acts': [[('put_copy', 1)], [('delete',)] if rng.random() < 0.5 else [('put_copy', -1)]], 'cons': [None, None], 'ret': 0})
        spec['passes'].insert(0, cp)
        spec['passes'].insert(0, att)
    if kind == 9:
        # rule flood: far more rules than the matcher's candidate list holds (128 per state, 256 slots in two halves) match at one position,
        # spread over success states of different depth so that the lists are merged along one path
        n = rng.choice([100, 129, 140, 201, 255])
        lens = [rng.choice([1, 2, 3]) for _ in range(n)] if rng.random() < 0.5 else [1] + [2] * (n // 2) + [3] * (n - 1 - n // 2)
        anyc = -1 if rng.random() < 0.7 else rng.randrange(ncls)
        revsort = rng.random() < 0.5
        flood = []
        for j, L in enumerate(lens):
            acts = [[] for _ in range(L)]
            if j % 37 == 5:
                acts[0] = [('attr', 'AdvX', ('const', 100 + j))]
            flood.append({'pre': 0, 'pat': [anyc] * L, 'acts': acts, 'cons': [None] * L, 'ret': 0})
            if revsort:
                # sort keys need not follow the pattern length: deeper states then merge *behind* the earlier ones.  (The sort key is also the
                # rule length the code loader checks NEXTs against, so these rules carry a bare RET_ZERO.)
                flood[-1]['sortkey'] = 5 - L
                flood[-1]['raw_acts'] = [49]
        where = 0 if rng.random() < 0.5 else len(spec['passes'])
        spec['passes'].insert(where, {'type': spec['passes'][0]['type'] if where == 0 else 'pos', 'pre': 0, 'maxloop': rng.choice([1, 3]), 'rules': flood})
    if kind == 8 and spec['passes'][0]['type'] in ('sub', 'lb'):
        # raw action: DELETE immediately followed by INSERT in one item (no NEXT in between) - the cursor is a deleted slot when the new slot
        # is linked in; no compiler emits this, the loader accepts it.  The replacement glyph is outside the matched class where possible.
        from .gdl import OP as _OP
        c = rng.randrange(ncls)
        outs = [c2 for c2 in range(ncls) if spec['classes'][c2][0] not in spec['classes'][c]] or [c]
        c2 = rng.choice(outs)
        raw = [_OP['DELETE'], _OP['INSERT'], _OP['PUT_GLYPH'], c2 >> 8, c2 & 255, _OP['NEXT'], _OP['RET_ZERO']]
        if rng.random() < 0.4:
            raw = [_OP['INSERT'], _OP['PUT_GLYPH'], c2 >> 8, c2 & 255, _OP['DELETE'], _OP['NEXT'], _OP['RET_ZERO']]      # ... and the other order
        spec['passes'][0]['rules'].insert(0, {'pre': 0, 'pat': [c], 'acts': [[]], 'cons': [None], 'ret': 0, 'raw_acts': raw})
        spec['passes'][0]['maxloop'] = rng.choice([1, 3, 20])
    if kind == 4 and spec['passes'][0]['type'] in ('sub', 'lb'):
        # delete everything / delete first or last
        spec['passes'][0]['rules'].insert(0, {'pre': 0, 'pat': [-1], 'acts': [[('delete',)]], 'cons': [None if rng.random() < 0.5 else ('lt', ('gattr', 0, 4), ('const', 2))], 'ret': 0})
    return spec


def just_spec(rng):
    """Fonts with justification levels, justification passes and line-end contextuals (no shipped font has any)."""
    spec = gen_spec(rng, set("assoc,cons,pre,delete,insert,attach,rtl,lookup".split(',')))
    ncls = len(spec['classes'])
    nlev = rng.choice([0, 1, 2, 3, 4])
    spec['nattrs'] = 32
    # glyph attributes 8.. hold stretch/shrink/step/weight per level
    spec['jlevels'] = [(8 + 4 * l, 9 + 4 * l, 10 + 4 * l, 11 + 4 * l) for l in range(nlev)]
    extreme = rng.random() < 0.3          # stretch / shrink / step / weight at the edges of their 16-bit range (negative weights and steps included)
    spec['just_extreme'] = extreme
    for g in spec['glyphs'][1:]:
        for l in range(nlev):
            if rng.random() < 0.7:
                g['attrs'].update({8 + 4 * l: rng.choice([0, 50, 200, 1000]), 9 + 4 * l: rng.choice([0, 20, 100]), 10 + 4 * l: rng.choice([0, 1, 5]), 11 + 4 * l: rng.choice([0, 1, 2, 5])})
            if extreme and rng.random() < 0.5:
                g['attrs'].update({8 + 4 * l: rng.choice([0, 1, 32767, 32768, 65535]), 9 + 4 * l: rng.choice([0, 1, 32767, 65535]),
                                   10 + 4 * l: rng.choice([0, 1, 2, 32767, 65535]), 11 + 4 * l: rng.choice([0, 1, 32767, 32768, 65535])})
    line_ends = rng.random() < 0.5
    spec['flags'] = 1 if line_ends else 0
    spec['lbgid'] = rng.choice([0, rng.randrange(1, 13)])
    # space is a real glyph so that the default "stretch the spaces" path has something to stretch
    spec['cmap'][0x20] = 7
    if rng.random() < 0.7:
        rules = []
        for _ in range(rng.randrange(1, 4)):
            L = rng.randrange(1, 3)
            pat = [rng.randrange(ncls) for _ in range(L)]
            acts = [[] for _ in range(L)]
            k = rng.randrange(L)
            acts[k] = [('attr', 'AdvX', ('add', ('sattr', 0, 'AdvX'), ('sattr', 0, 'JWidth')))] if rng.random() < 0.6 else [('attr', 'ShiftX', ('const', rng.randrange(-50, 50)))]
            if rng.random() < 0.3:
                acts[k].append(('put_glyph', rng.randrange(ncls)))
            rules.append({'pat': pat, 'acts': acts, 'cons': [None] * L, 'ret': 0})
        if line_ends and spec['lbgid'] and rng.random() < 0.7:
            # a rule that sees the end-of-line glyph
            spec['classes'].append([spec['lbgid']])
            if spec.get('nlinear', ncls) == ncls:
                spec['nlinear'] = ncls + 1
            else:
                # keep linear classes first: put the new class at the linear/lookup boundary
                nl = spec['nlinear']
                spec['classes'].insert(nl, spec['classes'].pop())
                spec['nlinear'] = nl + 1
                def fix(c):
                    return c + 1 if c >= nl else c
                for P in spec['passes']:
                    for r in P['rules']:
                        r['pat'] = [fix(c) for c in r['pat']]
                        for acts_ in r['acts']:
                            for i_, a_ in enumerate(acts_):
                                if a_[0] == 'put_glyph':
                                    acts_[i_] = ('put_glyph', fix(a_[1]))
                                elif a_[0] == 'put_subs':
                                    acts_[i_] = ('put_subs', a_[1], fix(a_[2]), fix(a_[3]))
                for r in rules:
                    r['pat'] = [fix(c) for c in r['pat']]
                    for acts_ in r['acts']:
                        for i_, a_ in enumerate(acts_):
                            if a_[0] == 'put_glyph':
                                acts_[i_] = ('put_glyph', fix(a_[1]))
                lbc = nl
            lbc = spec['classes'].index([spec['lbgid']])
            rules.append({'pat': [rng.randrange(len(spec['classes'])), lbc], 'acts': [[('attr', 'AdvX', ('const', rng.randrange(0, 900)))], []], 'cons': [None, None], 'ret': 0})
        spec['passes'].append({'type': 'just', 'pre': 0, 'maxloop': 3, 'rules': rules})
    return spec


def stateful_spec(rng):
    """Fonts whose rules write state that must stay inside one segment (C08): SET_FEAT, user attributes tested by later
    passes, pass-skipping bits (attrSkipPasses) on glyphs."""
    spec = gen_spec(rng, set("assoc,cons,pre,delete,insert,attach,rtl,lookup,feat".split(',')))
    ncls = len(spec['classes'])
    # a first pass that sets feature 0/1 from the glyph stream; later constraints (gen_spec 'feat') read them back
    rules = []
    for _ in range(rng.randrange(1, 4)):
        c = rng.randrange(ncls)
        rules.append({'pre': 0, 'pat': [c], 'acts': [[('setfeat', rng.randrange(2), ('const', rng.randrange(0, 4))), ('user', rng.randrange(2), ('const', rng.randrange(1, 4)))]],
                      'cons': [None], 'ret': 0})
    spec['passes'].insert(0, {'type': 'sub', 'pre': 0, 'maxloop': 3, 'rules': rules})
    if rng.random() < 0.6:
        # pass-skipping bits: glyph attribute 6 holds a bit per pass; a segment whose glyphs all clear bit i skips pass i
        spec.setdefault('attr_ids', {})['passbits'] = 6
        for g in spec['glyphs']:
            g['attrs'][6] = rng.choice([0xFFFF, 0xFFFF, 1, 2, 3, 5, 0])
    return spec


def cmap_spec(rng):
    """Well-formed fonts whose interest is the cmap: many segments, block-boundary segments, idRangeOffset arrays with
    holes, wrapping deltas, U+FFFF / U+10FFFF mapped, format 12 groups at plane boundaries, BMP code points inside the
    format 12 table (consistent or not with format 4), pseudo glyphs.  One positioning pass and no substitution pass,
    so the first slot of a one-character segment shows the cmap / pseudo result directly."""
    ng = rng.choice([8, 40, 300])
    glyphs = [{'adv': 500, 'attrs': {1: 0}}] + [{'adv': 200 + (7 * g) % 600, 'attrs': {1: 0}} for g in range(1, ng)]
    m = {}
    style = rng.randrange(5)
    nseg = rng.choice([1, 3, 20, 200, 1500]) if style else 2000
    cp = rng.randrange(0x20, 0x200)
    for _ in range(nseg):
        if rng.random() < 0.3:
            cp = (cp | 0xFF) - rng.randrange(0, 3)        # straddle a 256-block boundary
        ln = rng.choice([1, 1, 2, 5, 40]) if nseg > 100 else rng.choice([1, 3, 30, 300])
        g0 = rng.randrange(1, ng)
        for i in range(ln):
            if cp + i < 0xFFFF:
                m[cp + i] = (g0 + i) % ng or 1
        cp += ln + rng.choice([1, 1, 2, 17, 300])
        if cp >= 0xFFF0:
            break
    if rng.random() < 0.25:
        # the first segment starts at U+0000 (fonts that map the C0 controls): the cache-filling walk must not lose U+0001
        for c in range(0, rng.choice([1, 2, 3, 0x20])):
            m[c] = 1 + c % (ng - 1)
    if rng.random() < 0.5:
        m[0xFFFF] = rng.randrange(1, ng)
    if rng.random() < 0.3:
        m[0xFFFE] = rng.randrange(1, ng)
    if rng.random() < 0.3:
        m[0xD7FF] = rng.randrange(1, ng)
        m[0xE000] = rng.randrange(1, ng)
    for c in range(0x61, 0x67):
        m.setdefault(c, 1 + (c - 0x61) % (ng - 1))
    spec = {'glyphs': glyphs, 'cmap': m, 'nattrs': 8, 'user': 0, 'classes': [[1]], 'nlinear': 1, 'dir': 0,
            'passes': [{'type': 'pos', 'pre': 0, 'maxloop': 1, 'rules': [{'pat': [0], 'acts': [[('attr', 'ShiftY', ('const', 0))]], 'cons': [None], 'ret': 0}]}],
            'cmap_ro_seed': rng.randrange(1 << 30) if rng.random() < 0.7 else None}
    if rng.random() < 0.7:
        groups = []
        pts = [0x10000, 0x10001, 0x1FFFE, 0x1FFFF, 0x20000, 0x2FFFF, 0x30000, 0xE0000, 0xEFFFF, 0xF0000, 0x10FFFE, 0x10FFFF]
        cur = 0x10000 if rng.random() < 0.6 else rng.choice(pts)
        for _ in range(rng.choice([1, 2, 5, 40])):
            ln = rng.choice([1, 1, 2, 16, 300, 70000 if rng.random() < 0.1 else 3])
            end = min(cur + ln - 1, 0x10FFFF)
            groups.append((cur, end, rng.randrange(1, 60000)))
            if end >= 0x10FFFF:
                break
            cur = end + 1 + rng.choice([0, 0, 1, 255, 0x1000, 0x20000])       # adjacent groups are frequent
            if rng.random() < 0.3:
                cur = max(cur, rng.choice(pts))
            if cur > 0x10FFFF:
                break
        if rng.random() < 0.4 and (not groups or groups[-1][1] < 0x10FFFF):
            groups.append((0x10FFFF, 0x10FFFF, rng.randrange(1, ng)))
        bmp12 = rng.random()
        if bmp12 < 0.35:
            # BMP characters inside the format 12 table
            consistent = rng.random() < 0.5
            bg = []
            for c in sorted(rng.sample(sorted(m), min(len(m), 6))):
                if c < 0xFFFF:
                    bg.append((c, c, m[c] if consistent else (m[c] % (ng - 1)) + 1))
            if rng.random() < 0.5:
                bg.append((0x41, 0x42, 3))         # mapped by format 12 only
            groups = sorted(set(bg)) + groups
            spec['tags'] = ['bmp-in-format12-' + ('consistent' if consistent else 'inconsistent')]
        spec['cmap12'] = groups
    if rng.random() < 0.5:
        # pseudo glyphs: attribute-only glyphs beyond maxp.numGlyphs whose attribute 0 names the real glyph
        spec['extra_attr_glyphs'] = []
        spec['pseudos'] = []
        for i in range(rng.randrange(1, 5)):
            u = rng.choice([0x25CC + i, 0xF000 + i, 0x1F600 + i, 0x41 + i, 0x10FFFF - i])
            if u in m:
                continue
            spec['extra_attr_glyphs'].append({'attrs': {0: rng.randrange(1, ng), 1: 0}})
            spec['pseudos'].append((u, ng + len(spec['extra_attr_glyphs']) - 1))
    return spec


def feat_spec(rng):
    """Fonts whose interest is Feat / Sill / name: 1..300 features whose value widths make the packed representation
    straddle 32-bit words in every way, v1 and v2 layouts, hidden features, negative setting values, features without
    settings (unbounded), 0..40 languages with zero-padded tags of 1..4 letters, label strings in several languages
    (BMP and astral), name tables laid out with and without records of other platforms / Windows encodings (1,0), (3,0), (3,10) around the (3,1) records."""
    spec = gen_spec(rng, set("cons,pre,rtl,lookup".split(',')))
    v2 = rng.random() < 0.6
    style = rng.randrange(6)
    nfeat = rng.choice([1, 2, 5, 12, 40, 120]) if style else rng.choice([200, 270, 300, 2200])
    feats = []
    ids = set()
    next_name = 256
    names = {}           # name id -> {lang: string}
    def newname(text):
        nonlocal next_name
        nid = next_name
        next_name += 1
        langs = rng.sample([0x409, 0x40C, 0x809, 0x407, 0x411, 0x80C], rng.randrange(1, 4))
        if rng.random() < 0.2 and 0x409 in langs:
            langs.remove(0x409)
        if not langs:
            langs = [0x40C]
        names[nid] = {l: '%s-%x%s' % (text, l, rng.choice(['', '', ' \u00e9\u4e2d', ' \U0001F600'])) for l in langs}
        # labels dominated by characters that need 3 UTF-8 bytes per UTF-16 unit (the worst case for the engine's conversion buffer), pure
        # astral labels (4 bytes per pair) and a one-character label; dealt by name id so that the PRNG stream of the family is untouched (S89)
        if nid % 5 == 2:
            for l in names[nid]:
                names[nid][l] = ['\u1000' * (1 + nid % 9), '\uffee\u0800' * (2 + nid % 4) + 'a', '\U0001F600' * (1 + nid % 3), '\u4e2d'][(nid // 5) % 4]
        return nid
    for i in range(nfeat):
        while True:
            fid = rng.randrange(2, 60000) if not v2 else rng.choice([rng.randrange(2, 1 << 16), rng.randrange(1 << 24, 1 << 31), 0x61000000 + rng.randrange(1 << 20),
                                                                     # feature ids that are 1-, 2- and 3-letter tags, zero padded
                                                                     (0x61 + rng.randrange(26)) << 24, (0x61 + rng.randrange(26)) << 24 | (0x61 + rng.randrange(26)) << 16,
                                                                     (0x61 + rng.randrange(26)) << 24 | (0x61 + rng.randrange(26)) << 16 | (0x61 + rng.randrange(26)) << 8])
            if fid not in ids and (fid & 0xFF) not in (0x20,) and fid != 0x20202020:
                ids.add(fid)
                break
        kind = rng.random()
        if style == 0 and nfeat >= 200:
            kind = 0.95 if rng.random() < 0.9 else kind       # mostly unbounded: more than 256 storage words
        if kind < 0.9:
            width = rng.randrange(0, 17)
            mx = 0 if width == 0 else rng.randrange(1 << (width - 1), 1 << width)
            nset = rng.randrange(1, 6)
            vals = [mx] + [rng.randrange(0, mx + 1) for _ in range(nset - 1)]
            rng.shuffle(vals)
            settings = [(v if v < 0x8000 else v - 0x10000, newname('s%d' % v) if i < 40 else 300) for v in vals]
        else:
            settings = []
        feats.append({'id': fid, 'settings': settings, 'label': newname('f%d' % i) if i < 60 else 299, 'flags': 0x0800 if rng.random() < 0.15 else 0})
    if rng.random() < 0.12:
        for f in feats:
            f['flags'] = 0x0800                               # every feature hidden: nothing enumerable, everything reachable by id
    if rng.random() < 0.3:
        feats[rng.randrange(len(feats))]['id'] = 1        # the language feature
        if rng.random() < 0.5:
            [f for f in feats if f['id'] == 1][0]['settings'] = []
    spec['feats'] = feats
    spec['feat_version'] = 2 if v2 else 1
    if not v2:
        for f in feats:
            f['id'] &= 0xFFFF
        seen = set()
        for f in feats:
            while f['id'] in seen or f['id'] == 0 or (f['id'] & 0xFF) == 0x20:
                f['id'] = (f['id'] + 7) & 0xFFFF
            seen.add(f['id'])
    langs = []
    tags = set()
    for _ in range(rng.choice([0, 1, 3, 12, 40])):
        n = rng.randrange(1, 5)
        tag = ''.join(rng.choice('abcdefghijklmnopqrstuvwxyz') for _ in range(n))
        if tag in tags:
            continue
        tags.add(tag)
        st = []
        for f in rng.sample(feats, min(len(feats), rng.randrange(0, 5))):
            mx = max([v & 0xFFFF for v, _ in f['settings']]) if f['settings'] else 0xFFFF
            st.append((f['id'], rng.choice([0, mx, rng.randrange(0, mx + 1), min(mx + 1, 0xFFFF)])))
        if rng.random() < 0.1:
            st.append((0x7FFFFFF0 if v2 else 0xFFF0, 1))       # a feature the font does not have
        langs.append((tag, st))
    langs.sort(key=lambda x: (x[0] + '\0\0\0\0')[:4])
    if langs:
        spec['sill'] = langs
    recs = []
    layout = rng.randrange(6)
    if layout == 1:
        recs += [(1, 0, 0, 1, 'MacFamily'), (1, 0, 0, 256, 'MacFeat')]
    if layout in (0, 1, 3):
        recs += [(3, 1, 0x409, 0, 'Copyright'), (3, 1, 0x409, 1, 'Family')] if layout != 3 else []
    win = []
    for nid in sorted(names):
        for l in sorted(names[nid]):
            win.append((3, 1, l, nid, names[nid][l]))
    if layout == 2 and len(win) > 1 and rng.random() < 0.5:
        recs = [(1, 0, 0, 256, 'MacFeat')]
        win = win[:1]                                       # exactly one Windows record after another platform's record
    if layout >= 4:
        # Windows *symbol* (3,0) and UCS-4 (3,10) records next to the Unicode BMP (3,1) ones the engine uses: in layout 4 some name ids
        # exist only under (3,0) (their labels are absent for the engine), in layout 5 every id exists under both with different text
        moved = set(rng.sample(sorted(names), max(1, len(names) // 3))) if layout == 4 and names else set()
        sym = [(3, 0, l, nid, 'SYM-' + t) for (_, _, l, nid, t) in win if layout == 5 or nid in moved]
        win = [w for w in win if w[3] not in moved]
        if rng.random() < 0.5:
            sym += [(3, 10, l, nid, 'UCS4-' + t) for (_, _, l, nid, t) in win[:8]]
        recs += sym
    recs += win
    recs.sort(key=lambda r_: (r_[0], r_[1], r_[2], r_[3]))
    spec['names'] = [list(r_) for r_ in recs]
    spec['tags'] = spec.get('tags', []) + ['name-layout-%d' % layout]
    return spec


def capedge_spec(rng):
    """Insert budgets at their boundaries (C02 growth clause).  One rule inserts a glyph before 'a' and returns to 'a' again, so
    every 'a' receives maxRuleLoop inserts; the texts listed in spec['texts'] make the final slot count land on, just below and
    just above 64 x characters.  The inserting pass is a line-break, substitution or (refused by the loader) positioning pass,
    alone or followed by other passes."""
    glyphs = base_glyphs(rng)
    n = rng.choice([2, 3, 4, 4])
    k = rng.choice([-1, 0, 1, 1, n - 1, n])              # slots = 64 n + k
    L = 63 * n + k                                         # inserts on the single 'a' of the text
    if L > 255 or L < 1:
        n, L = 2, 127
    where = rng.choice(['lb', 'lb', 'sub', 'sub'])
    storm = {'type': where, 'pre': 0, 'maxloop': L, 'rules': [{'pre': 0, 'pat': [0], 'acts': [[('insert',), ('put_glyph', 1), ('endins',)]], 'cons': [None], 'ret': -1}]}
    passes = [storm]
    tail = rng.randrange(4)
    if tail == 1 and where == 'lb':
        passes.append({'type': 'sub', 'pre': 0, 'maxloop': 2, 'rules': [{'pre': 0, 'pat': [2], 'acts': [[('put_glyph', 2)]], 'cons': [None], 'ret': 0}]})
    if tail >= 2:
        passes.append({'type': 'pos', 'pre': 0, 'maxloop': 2, 'rules': [{'pre': 0, 'pat': [1], 'acts': [[('attr', 'ShiftY', ('const', 5))]], 'cons': [None], 'ret': 0}]})
    spec = {'nlinear': 3, 'dir': rng.randrange(2), 'glyphs': glyphs, 'cmap': {0x61 + i: 1 + i for i in range(6)}, 'nattrs': 8, 'user': 1,
            'classes': [[1], [7], [2]], 'passes': passes}
    texts = []
    for m in range(max(2, n - 1), n + 2):
        texts += ['a' + 'b' * (m - 1), 'b' * (m - 1) + 'a', 'b' + 'a' + 'b' * max(m - 2, 0)]
    spec['texts'] = texts
    return spec
