"""GDL-lite -> complete Graphite font (sfnt bytes).

A spec is a plain dict (JSON-serialisable):
  glyphs   [{adv, bbox?, attrs{attr id: value}}]        glyph 0 is .notdef
  extra_attr_glyphs [{attrs}]                           attribute-only glyphs beyond maxp.numGlyphs (pseudo glyphs)
  cmap     {code point: gid}   cmap12 [(first,last,gid)]?   pseudos [(code point, gid)]?
  classes  [[gid,...]]   nlinear (classes[:nlinear] linear, the rest lookup classes)
  passes   [{type: 'lb'|'sub'|'pos'|'just', pre, maxloop, flags?, pcons?, rules: [rule]}]   (stored in type order)
  rule     {pre?, pat [class,...], acts [[action...] per non-context item], cons [expr|None per item]?, ret?,
            raw_acts? / raw_cons? (bytes as list of ints: hostile bytecode that replaces the generated code)}
  action   (put_glyph,c) (put_subs,off,inclass,outclass) (put_copy,off) (insert,) ... (endins,) (delete,)
           (assoc,[off...]) (attr,NAME,expr) (user,idx,expr) (attach,off) (setfeat,idx,expr)
  expr     (const,n) (gattr,off,attr) (uattr,off,idx) (feat,off,idx) (sattr,off,NAME) (not,e) (op,e,e)
  dir 0|1, user n, nattrs n, feats, sill, names, jlevels [(stretch,shrink,step,weight attr ids)], flags, lbgid,
  silf_version 2..5, glat_version 1..3, gloc_long, gloc_attrids, feat_version, upem, loca_long, mirror_attr...
The FSM is built by subset construction over glyph columns (glyphs with the same class-membership signature share a
column), states ordered transitional / transitional-accepting / final, state 0 = start = "no transition", exactly
as doc/GTF.adoc requires.  Mixed pre-contexts are supported: shorter patterns are padded with ANY and get their own
start states.
"""
import random

from .sfnt import (be16, be32, u8, build_sfnt, cmap as build_cmap, feat_table, glat_gloc, glyf_loca, head, hhea, hmtx,
                   maxp, name_table, sill_table)

OP = dict(NOP=0, PUSH_BYTE=1, PUSH_BYTEU=2, PUSH_SHORT=3, PUSH_SHORTU=4, PUSH_LONG=5, ADD=6, SUB=7, MUL=8, DIV=9, MIN=10, MAX=11,
          NEG=12, TRUNC8=13, TRUNC16=14, COND=15, AND=16, OR=17, NOT=18, EQUAL=19, NOT_EQ=20, LESS=21, GTR=22, LESS_EQ=23,
          GTR_EQ=24, NEXT=25, NEXT_N=26, COPY_NEXT=27, PUT_GLYPH_8=28, PUT_SUBS_8=29, PUT_COPY=30, INSERT=31, DELETE=32,
          ASSOC=33, CNTXT_ITEM=34, ATTR_SET=35, ATTR_ADD=36, ATTR_SUB=37, ATTR_SET_SLOT=38, IATTR_SET_SLOT=39,
          PUSH_SLOT_ATTR=40, PUSH_GLYPH_ATTR_OBS=41, PUSH_GLYPH_METRIC=42, PUSH_FEAT=43, PUSH_ATT_TO_GATTR_OBS=44,
          PUSH_ATT_TO_GLYPH_METRIC=45, PUSH_ISLOT_ATTR=46, PUSH_IGLYPH_ATTR=47, POP_RET=48, RET_ZERO=49, RET_TRUE=50,
          IATTR_SET=51, IATTR_ADD=52, IATTR_SUB=53, PUSH_PROC_STATE=54, PUSH_VERSION=55, PUT_SUBS=56, PUT_SUBS2=57,
          PUT_SUBS3=58, PUT_GLYPH=59, PUSH_GLYPH_ATTR=60, PUSH_ATT_TO_GLYPH_ATTR=61, BITOR=62, BITAND=63, BITNOT=64,
          BITSET=65, SET_FEAT=66)
SLAT = dict(AdvX=0, AdvY=1, AttTo=2, AttX=3, AttY=4, AttWithX=8, AttWithY=9, AttLevel=13, Break=14, Insert=17, ShiftX=20,
            ShiftY=21, JStretch=25, JShrink=26, JStep=27, JWeight=28, JWidth=29, UserDefn=55)
BIN = {'eq': 'EQUAL', 'ne': 'NOT_EQ', 'lt': 'LESS', 'gt': 'GTR', 'le': 'LESS_EQ', 'ge': 'GTR_EQ', 'and': 'AND', 'or': 'OR',
       'add': 'ADD', 'sub': 'SUB', 'mul': 'MUL', 'min': 'MIN', 'max': 'MAX', 'bitor': 'BITOR', 'bitand': 'BITAND'}


def push(v):
    if -128 <= v <= 127:
        return u8(OP['PUSH_BYTE'], v)
    if -32768 <= v <= 32767:
        return u8(OP['PUSH_SHORT']) + be16(v)
    return u8(OP['PUSH_LONG']) + be32(v)


def emit_expr(e):
    k = e[0]
    if k == 'const':
        return push(e[1])
    if k == 'gattr':
        return u8(OP['PUSH_GLYPH_ATTR']) + be16(e[2]) + u8(e[1])          # (slot offset, attribute)
    if k == 'uattr':
        return u8(OP['PUSH_ISLOT_ATTR'], SLAT['UserDefn'], e[1], e[2])    # (slot offset, index)
    if k == 'sattr':
        return u8(OP['PUSH_SLOT_ATTR'], SLAT[e[2]], e[1])                 # (slot offset, NAME)
    if k == 'feat':
        return u8(OP['PUSH_FEAT'], e[2], e[1])                            # (slot offset, feature index)
    if k == 'rawsattr':
        return u8(OP['PUSH_SLOT_ATTR'], e[2], e[1])                       # (slot offset, attribute NUMBER): any slot attribute code
    if k == 'rawisattr':
        return u8(OP['PUSH_ISLOT_ATTR'], e[2], e[1], e[3])                # (slot offset, attribute number, index)
    if k == 'not':
        return emit_expr(e[1]) + u8(OP['NOT'])
    if k == 'neg':
        return emit_expr(e[1]) + u8(OP['NEG'])
    if k in BIN:
        return emit_expr(e[1]) + emit_expr(e[2]) + u8(OP[BIN[k]])
    raise ValueError(e)


def emit_action(a, ins=0):
    k = a[0]
    if k == 'put_glyph':
        return u8(OP['PUT_GLYPH']) + be16(a[1])
    if k == 'put_subs':
        return u8(OP['PUT_SUBS'], a[1] + ins) + be16(a[2]) + be16(a[3])
    if k == 'put_copy':
        return u8(OP['PUT_COPY'], a[1] + ins)
    if k == 'insert':
        return u8(OP['INSERT'])
    if k == 'delete':
        return u8(OP['DELETE'])
    if k == 'assoc':
        return u8(OP['ASSOC'], len(a[1]), *[o + ins for o in a[1]])
    if k == 'attr':
        return emit_expr(a[2]) + u8(OP['ATTR_SET'], SLAT[a[1]])
    if k == 'attr_add':
        return emit_expr(a[2]) + u8(OP['ATTR_ADD'], SLAT[a[1]])
    if k == 'iattr':
        return emit_expr(a[3]) + u8(OP['IATTR_SET'], SLAT[a[1]], a[2])
    if k == 'rawattr':
        # (opcode name, attribute NUMBER, index or None, expr): every slot attribute code the loader lets through, incl. the
        # justification attributes of levels the font does not have and the collision / sequence attributes
        if a[1].startswith('IATTR'):
            return emit_expr(a[4]) + u8(OP[a[1]], a[2], a[3] or 0)
        return emit_expr(a[4]) + u8(OP[a[1]], a[2])
    if k == 'user':
        return emit_expr(a[2]) + u8(OP['IATTR_SET'], SLAT['UserDefn'], a[1])
    if k == 'attach':
        return push(a[1] + ins) + u8(OP['ATTR_SET_SLOT'], SLAT['AttTo'])
    if k == 'setfeat':
        return emit_expr(a[2]) + u8(OP['SET_FEAT'], a[1], 0)
    raise ValueError(a)


def build_pass(P, spec, pass_off):
    rules = P['rules']
    ng = len(spec['glyphs']) + len(spec.get('extra_attr_glyphs', []))
    flags = P.get('flags', 0)
    if not rules:
        # collision-only pass: no rules, no FSM; every array has its minimal length
        body = be16(0) + u8(0, 0) + be16(0) + u8(P.get('colthresh', 0)) + be16(0) + be16(0) + be16(0) + u8(0)
        code = pass_off + 40 + len(body)
        hdr = u8(flags, P.get('maxloop', 1), 0, 0) + be16(0, 0) + be32(code, code, code, 0) + be16(0, 0, 0, 0, 0, 0, 0, 0)
        return hdr + body + b'\0'
    rpre = [r.get('pre', P.get('pre', 0)) for r in rules]
    pre = max(rpre)
    minpre = min(rpre)
    ANY = frozenset(range(ng))
    upats = [[frozenset(spec['classes'][c]) if c >= 0 else ANY for c in r['pat']] for r in rules]
    pats = [[ANY] * (pre - rp) + up for rp, up in zip(rpre, upats)]
    allsets = sorted({s for p in pats for s in p}, key=lambda s: sorted(s))
    sig = {}
    for g in range(ng):
        k = tuple(g in s for s in allsets)
        if any(k):
            sig.setdefault(k, []).append(g)
    cols = list(sig.values())
    col_of = {g: i for i, gs in enumerate(cols) for g in gs}
    setcols = {s: {col_of[g] for g in s if g in col_of} for s in allsets}
    start = frozenset((ri, 0) for ri in range(len(rules)))
    # start state for "k glyphs of the longest pre-context are missing": rules whose own pre-context still fits.  With
    # P['loose_starts'] (what the GDL compiler emits) every rule enters at item k, the missing glyphs acting as wildcards; the engine
    # must then reject the rules that need more pre-context than exists (Pass::testConstraint) - both encodings mean the same program.
    loose = bool(P.get('loose_starts'))
    starts = [frozenset((ri, k) for ri in range(len(rules)) if loose or pre - rpre[ri] >= k) for k in range(pre - minpre + 1)]
    assert starts[0] == start
    order = [start]
    seen = {start}
    trans = {}
    q = [start]
    for S_ in starts[1:]:
        if S_ not in seen:
            seen.add(S_)
            order.append(S_)
            q.append(S_)
    while q:
        S = q.pop(0)
        for c in range(len(cols)):
            T = frozenset((ri, pos + 1) for (ri, pos) in S if pos < len(pats[ri]) and c in setcols[pats[ri][pos]])
            if not T:
                continue
            if T not in seen:
                seen.add(T)
                order.append(T)
                q.append(T)
            trans[(S, c)] = T
    if len(order) > 4000:
        raise ValueError('FSM too large')

    def acc(S):
        return [ri for (ri, pos) in sorted(S) if pos == len(pats[ri])]

    def istr(S):
        return any((S, c) in trans for c in range(len(cols)))

    g1 = [S for S in order if (istr(S) or S in starts) and not acc(S)]
    g2 = [S for S in order if istr(S) and acc(S)]
    g3 = [S for S in order if not istr(S) and acc(S)]
    if start in g2 or start in g3:
        raise ValueError('start state accepting (empty pattern)')
    g1.remove(start)
    g1.insert(0, start)
    allst = g1 + g2 + g3
    idx = {S: i for i, S in enumerate(allst)}
    numRows = len(allst)
    numTrans = len(g1) + len(g2)
    numSucc = len(g2) + len(g3)
    ranges = []
    for g in sorted(col_of):
        if ranges and ranges[-1][1] == g - 1 and ranges[-1][2] == col_of[g]:
            ranges[-1][1] = g
        else:
            ranges.append([g, g, col_of[g]])
    body = b''.join(be16(*r) for r in ranges)
    omap = [0]
    rmap = []
    for S in g2 + g3:
        rmap += acc(S)
        omap.append(len(rmap))
    body += be16(*omap) + be16(*rmap) + u8(minpre, pre) + be16(*[idx[S_] for S_ in starts])
    body += be16(*[r.get('sortkey', len(p)) for r, p in zip(rules, upats)]) + u8(*rpre) + u8(P.get('colthresh', 0))
    pcode = b''
    if P.get('pcons') is not None:
        pcode = emit_expr(P['pcons']) + u8(OP['POP_RET'])
    if P.get('raw_pcons') is not None:
        pcode = bytes(P['raw_pcons'])
    ccodes = []
    acodes = []
    for r, p, pre_r in zip(rules, upats, rpre):
        L = len(p)
        if r.get('raw_cons') is not None:
            cc = bytes(r['raw_cons'])
        else:
            cc = b''
            n = 0
            for k, e in enumerate(r.get('cons') or [None] * L):
                if e is None:
                    continue
                b_ = emit_expr(e)
                cc += u8(OP['CNTXT_ITEM'], k - pre_r, len(b_)) + b_
                if n:
                    cc += u8(OP['AND'])
                n += 1
            if cc:
                cc += u8(OP['POP_RET'])
        ccodes.append(cc)
        if r.get('raw_acts') is not None:
            ac = bytes(r['raw_acts'])
        else:
            ac = b''
            for k in range(pre_r, L):
                acts = r['acts'][k - pre_r]
                if acts and acts[0][0] == 'insert':
                    # an inserted slot is an extra output item placed before input item k; inside its actions slot
                    # references are relative to the previous input item, so the compiler adds 1
                    ac += emit_action(acts[0])
                    i_ = 1
                    while i_ < len(acts) and acts[i_][0] != 'endins':
                        ac += emit_action(acts[i_], 1)
                        i_ += 1
                    ac += u8(OP['NEXT'])
                    acts = acts[i_ + 1:]
                for a in acts:
                    ac += emit_action(a)
                ac += u8(OP['NEXT'])
            ret = r.get('ret', 0)
            ac += u8(OP['RET_ZERO']) if ret == 0 else push(ret) + u8(OP['POP_RET'])
        acodes.append(ac)
    body += be16(len(pcode))
    co = []
    blob = b'\0' if any(ccodes) else b''
    for cc in ccodes:
        if cc:
            co.append(len(blob))
            blob += cc
        else:
            co.append(0)
    co.append(len(blob))
    cblob = blob
    body += be16(*co)
    ao = []
    ablob = b''
    for ac in acodes:
        ao.append(len(ablob))
        ablob += ac
    ao.append(len(ablob))
    if len(ablob) > 0xFFFF or len(cblob) > 0xFFFF:
        raise ValueError('code too large')
    body += be16(*ao)
    for S in g1 + g2:
        body += be16(*[idx[trans[(S, c)]] if (S, c) in trans else 0 for c in range(len(cols))])
    body += b'\0'
    pc = pass_off + 40 + len(body)
    rc = pc + len(pcode)
    acd = rc + len(cblob)
    hdr = (u8(flags, P.get('maxloop', 5), max(len(p) for p in pats), pre) + be16(len(rules), 0) + be32(pc, rc, acd, 0) +
           be16(numRows, numTrans, numSucc, len(cols), len(ranges), 0, 0, 0))
    return hdr + body + pcode + cblob + ablob


def class_map(spec, version):
    classes = spec['classes']
    ncls = len(classes)
    nlin = spec.get('nlinear', ncls)
    wide = version >= 4
    off0 = 4 + (4 if wide else 2) * (ncls + 1)
    offs = [off0]
    data = b''
    for ci, c in enumerate(classes):
        if ci < nlin:
            data += be16(*c)
        else:
            n = len(c)
            sr = 1
            while sr * 2 <= n:
                sr *= 2
            es = sr.bit_length() - 1
            lie = spec.get('lie', {}).get(str(ci), spec.get('lie', {}).get(ci, 0))
            data += be16(n + lie, sr, es, n - sr + lie) + b''.join(be16(g, i) for g, i in sorted((g, i) for i, g in enumerate(c)))
        offs.append(off0 + len(data))
    if not wide and offs[-1] > 0xFFFF:
        raise ValueError('class map too large for 16-bit offsets')
    return be16(ncls, nlin) + (be32(*offs) if wide else be16(*offs)) + data


TYPE_ORDER = {'lb': 0, 'sub': 1, 'pos': 2, 'just': 3}


def silf(spec):
    version = spec.get('silf_version', 4)
    ng = len(spec['glyphs']) + len(spec.get('extra_attr_glyphs', []))
    passes = spec['passes']
    types = [TYPE_ORDER[p['type']] for p in passes]
    if types != sorted(types):
        raise ValueError('passes must be in lb/sub/pos/just order')
    np_ = len(passes)
    isub = sum(1 for t in types if t < 1)
    ipos = sum(1 for t in types if t < 2)
    ijust = sum(1 for t in types if t < 3)
    A = spec.get('attr_ids', {})
    jl = spec.get('jlevels', [])
    pre = (be32(version << 16) + be16(0, 0)) if version >= 3 else b''
    s = be16(spec.get('max_glyph', ng - 1), spec.get('extra_ascent', 0), spec.get('extra_descent', 0))
    s += u8(np_, isub, ipos, ijust, spec.get('ibidi', 0xFF), spec.get('flags', 0), 2, 2,
            A.get('pseudo', 0), A.get('break', 1), A.get('bidi', 2), A.get('mirror', 3), A.get('passbits', 0), len(jl))
    for j in jl:
        s += u8(j[0], j[1], j[2], j[3], 0, 0, 0, 0)
    s += be16(0) + u8(spec.get('user', 0), 0, 1 + spec.get('dir', 0), A.get('collision', 0), 0, 0, 0, 0, 0, 0) + be16(spec.get('lbgid', 0))
    pre += s
    pseudos = spec.get('pseudos', [])
    n = len(pseudos)
    sr = 1
    while sr * 2 <= max(n, 1):
        sr *= 2
    after = be16(n, sr, sr.bit_length() - 1, max(n - sr, 0)) + b''.join(be32(u) + be16(g) for u, g in pseudos) + class_map(spec, version)
    pstart = len(pre) + 4 * (np_ + 1) + len(after)
    pb = []
    cur = pstart
    offsets = [cur]
    for P in passes:
        b_ = build_pass(P, spec, cur)
        pb.append(b_)
        cur += len(b_)
        offsets.append(cur)
    sub = pre + be32(*offsets) + after + b''.join(pb)
    if version >= 3:
        return be32(version << 16, spec.get('compiler_version', 0x00050000)) + be16(1, 0) + be32(16) + sub
    return be32(version << 16) + be16(1, 0) + be32(12) + sub


def build_tables(spec):
    gl = spec['glyphs']
    extra = spec.get('extra_attr_glyphs', [])
    upem = spec.get('upem', 1000)
    loca_long = spec.get('loca_long', False)
    glyf, loca = glyf_loca([tuple(g.get('bbox', (0, 0, g['adv'], 700))) for g in gl], loca_long)
    attrs = [{int(k): v for k, v in (g.get('attrs') or {}).items()} or {1: 0} for g in list(gl) + list(extra)]
    glat, gloc = glat_gloc(attrs, spec.get('nattrs', 16), spec.get('glat_version', 1), spec.get('gloc_long', False),
                           spec.get('gloc_attrids', False), spec.get('octaboxes'), run_style=spec.get('glat_runs', 'max'), dense=spec.get('glat_dense', False))
    t = {'head': head(upem, loca_long), 'hhea': hhea(len(gl)), 'maxp': maxp(len(gl)), 'hmtx': hmtx([g['adv'] for g in gl]),
         'glyf': glyf, 'loca': loca,
         'cmap': build_cmap({int(k): v for k, v in spec['cmap'].items()}, spec.get('cmap12'),
                            random.Random(spec['cmap_ro_seed']) if spec.get('cmap_ro_seed') is not None else None),
         'Glat': glat, 'Gloc': gloc, 'Silf': silf(spec)}
    if spec.get('no_glyf'):
        del t['glyf'], t['loca']
    if spec.get('feats'):
        t['Feat'] = feat_table(spec['feats'], spec.get('feat_version', 2))
    if spec.get('sill'):
        t['Sill'] = sill_table(spec['sill'])
    if spec.get('names'):
        t['name'] = name_table([(p, e, l, i, bytes(b) if not isinstance(b, str) else (b.encode('utf-16-be') if p != 1 else b.encode('latin1')))
                                for p, e, l, i, b in spec['names']])
    return t


def build_font(spec):
    t = build_tables(spec)
    comp = spec.get('compress')
    if comp:
        from . import lz4
        import random
        for tag, how in comp.items():
            t[tag] = lz4.compress_table(t[tag], random.Random(how.get('seed', 1)), how.get('mode', 'greedy'))
    return build_sfnt(t)
