"""Reference interpreter for GDL-lite programs (DESIGN.md Appendix B).

Independent of the engine: a Python list of slot records, rule matching by explicit class-sequence comparison
(no FSM), precedence = (longer sort key first, then lower rule index), per-item constraints, sequential action
semantics with glyph reads from the rule's input snapshot, the documented pass loop (maxRuleLoop / high-water
mark), associations and final positioning.  Rules marked "transcribed" in Appendix B fix behaviour that the
documents leave open.  Promoted from the validated design-round prototype (0 disagreements on 27 600 cases).
"""
import copy
class Slot:
    __slots__=('gid','gid_in','adv','advy','sx','sy','ax','ay','wx','wy','user','before','after','orig','parent','children','ins','pos','index')
    def __init__(s,gid,adv,nuser,i):
        s.gid=gid; s.adv=adv; s.advy=0; s.sx=s.sy=0; s.ax=s.ay=s.wx=s.wy=0; s.user=[0]*nuser; s.before=s.after=s.orig=i; s.parent=None; s.children=[]; s.ins=False; s.pos=(0,0)
def ev(e, rule_slots, k, seg):   # evaluate expr with slot refs relative to item k
    t=e[0]
    def S(off):
        return rule_slots[k+off]
    if t=='const': return e[1]
    if t=='gattr': return seg['glyphs'][S(e[1])['gid0']].get('attrs',{}).get(str(e[2]),0) if False else seg['gattr'](S(e[1]).gid, e[2])
    if t=='uattr': return S(e[1]).user[e[2]] if e[2]<len(S(e[1]).user) else 0
    if t=='feat': return seg['feat'](e[2])
    if t=='not': return 0 if ev(e[1],rule_slots,k,seg) else 1
    a=ev(e[1],rule_slots,k,seg); b=ev(e[2],rule_slots,k,seg)
    w=lambda x:((x+2**31)%2**32)-2**31
    return {'eq':int(a==b),'ne':int(a!=b),'lt':int(a<b),'gt':int(a>b),'le':int(a<=b),'ge':int(a>=b),'and':int(bool(a) and bool(b)),'or':int(bool(a) or bool(b)),'add':w(a+b),'sub':w(a-b),'mul':w(a*b)}[t]
def _expr_refs(e, out):
    t=e[0]
    if t in ('gattr','uattr','feat','sattr'): out.append(e[1])
    elif t in ('not','neg'): _expr_refs(e[1],out)
    elif t!='const': _expr_refs(e[1],out); _expr_refs(e[2],out)
def temp_copied(rule, pre, L):
    """Which items of the rule does the loader snapshot before their actions run (Appendix B rule 4, transcribed from the
    loader's analysis): an item is *changed* by assoc, put_glyph, put_subs and put_copy (non-zero offset) executed on it - and,
    a quirk, the item before an insertion is marked changed by the inserted slot's glyph/assoc actions - and *referenced* when
    put_subs / put_copy / an attribute expression executed at that item or a later one names it (marks made on an item before
    the cursor reaches it are discarded).  Changed and referenced => references to it read the snapshot, otherwise the live slot."""
    key='_tc_%d_%d'%(pre,L)
    if key in rule: return rule[key]
    n=L-pre; ctx={}
    def C(i): return ctx.setdefault(i,{'ch':False,'ref':False})
    def mark(acts, slotref):
        for a in acts:
            k_=a[0]
            if k_ in ('assoc','put_glyph'):
                if slotref>=0: C(slotref)['ch']=True
            elif k_=='put_subs':
                if slotref>=0: C(slotref)['ch']=True
                if slotref+a[1]>=0: C(slotref+a[1])['ref']=True
            elif k_=='put_copy':
                if a[1]!=0 and slotref>=0: C(slotref)['ch']=True
                if slotref+a[1]>=0: C(slotref+a[1])['ref']=True
            elif k_ in ('attr','attr_add','user','setfeat','iattr'):
                refs=[]; _expr_refs(a[2] if k_!='iattr' else a[3],refs)
                for o in refs:
                    if slotref+o>=0: C(slotref+o)['ref']=True
    ctx[0]={'ch':False,'ref':False}
    for c in range(n):
        acts=rule['acts'][c]
        if acts and acts[0][0]=='insert':
            j=1
            while j<len(acts) and acts[j][0]!='endins': j+=1
            # inside the inserted slot's code the decoder's slot counter is one lower and the compiler added 1 to every offset
            ins=[]
            for a in acts[1:j]:
                if a[0] in ('put_subs','put_copy'): ins.append((a[0],a[1]+1)+tuple(a[2:]))
                else: ins.append(a)
            mark(ins, c-1)
            ctx[c]={'ch':False,'ref':False}          # the NEXT that ends the inserted slot re-creates this item's context
            acts=acts[j+1:]
        mark(acts, c)
        ctx[c+1]={'ch':False,'ref':False}
    res=[False]*pre+[bool(ctx.get(c,{}).get('ch') and ctx.get(c,{}).get('ref')) for c in range(n)]
    rule[key]=res
    return res
def shape(spec, gids, feats=None, trace=None, textdir=0):
    gl=spec['glyphs']; nuser=spec.get('user',0)
    def gattr(g,a):
        if g>=len(gl): return 0
        v=gl[g].get('attrs',{}); return v.get(a, v.get(str(a),0))
    def s16(v): return ((v+2**15)%2**16)-2**15
    stream=[Slot(g, gl[g]['adv'] if g<len(gl) else 0, nuser, i) for i,g in enumerate(gids)]
    fontdir=spec.get('dir',0); rev=(textdir&1)!=fontdir
    if rev: stream.reverse()
    seg={'gattr':gattr,'feat':lambda i:(feats or {}).get(i,0)}
    budget=[len(stream)*64]
    for pi,P in enumerate(spec['passes']):
        if pi>0 and P['type']=='pos' and spec['passes'][pi-1]['type']=='sub': budget=[len(stream)*64]
        if not stream: break
        rules=P['rules']; rpre=[r.get('pre',P.get('pre',0)) for r in rules]; maxpre=max(rpre); minpre=min(rpre)
        pats=[[set(spec['classes'][c]) for c in r['pat']] for r in rules]
        i=0
        hw=stream[1] if len(stream)>1 else None; hp=False; maxloop=max(P.get('maxloop',5),1); lc=maxloop
        if pi==0 or True:
            pass
        while i is not None and 0<=i<len(stream):
            fired=None
            if i>=minpre:
                cands=[ri for ri,p in enumerate(pats) if rpre[ri]<=min(maxpre,i) and i-rpre[ri]+len(p)<=len(stream) and all(stream[i-rpre[ri]+j].gid in p[j] for j in range(len(p)))]
                cands.sort(key=lambda ri:(-len(pats[ri]),ri))
                for ri in cands:
                    r=rules[ri]; L=len(pats[ri]); pre=rpre[ri]; rs=stream[i-pre:i-pre+L]
                    for s in rs: s.gid_in=s.gid
                    ok=True
                    for k,e in enumerate(r.get('cons',[None]*L)):
                        if e is not None and not ev(e,rs,k,seg): ok=False;break
                    if ok: fired=ri;break
            if fired is None:
                i+=1
                i,hw,hp,lc,stop=loopctl(stream,i,hw,hp,lc,maxloop)
                if stop: break
                continue
            hp=False
            r=rules[fired]; L=len(pats[fired]); pre=rpre[fired]; rs=stream[i-pre:i-pre+L]   # input snapshot (objects) ; gid_in holds input glyph
            if trace is not None: trace.append((pi,fired,i))
            snap=[copy.copy(s) for s in rs]; rs_live=list(rs)
            for s_,c_ in zip(snap,rs): s_.user=list(c_.user)
            tc=temp_copied(r,pre,L)
            class View:
                # what a slot reference made from inside the rule sees: the snapshot for temp-copied items, else the live slot
                def __getitem__(self,w): return snap[w] if tc[w] else rs_live[w]
                def __len__(self): return L
            view=View()
            cur=i       # index in stream of current item
            for k in range(pre,L):
                acts=r['acts'][k-pre]
                # current slot: the k-th input slot unless an insert happened
                tgt=None
                for a in acts:
                    if a[0]=='endins':
                        cur+=1; tgt=None; continue
                    if a[0]=='insert':
                        budget[0]-=1
                        if budget[0]<=0: raise Died()
                        if cur<len(stream) and stream[cur] is hw: hp=False
                        ns=Slot(0,0,nuser,0); ns.ins=True
                        # association defaults as engine: before=prev.after (or next.before), after=next.before, orig=next.orig
                        nxt=stream[cur] if cur<len(stream) else None; prv=stream[cur-1] if cur>0 else None
                        if nxt is not None:
                            ns.before = prv.after if prv is not None else nxt.before
                            ns.after = nxt.before; ns.orig=nxt.orig
                        elif prv is not None:
                            ns.before=prv.before; ns.after=prv.after; ns.orig=prv.orig
                        stream.insert(cur,ns); tgt=ns
                        continue
                    if tgt is None: tgt=stream[cur]
                    if a[0]=='put_glyph':
                        cl=spec['classes'][a[1]]; g=cl[0] if cl else 0; setglyph(tgt,g,gl)
                    elif a[0]=='put_subs':
                        src=view[k+a[1]]; icl=spec['classes'][a[2]]; ocl=spec['classes'][a[3]]
                        idx=icl.index(src.gid) if src.gid in icl else None
                        g=ocl[idx] if (idx is not None and idx<len(ocl)) else 0; setglyph(tgt,g,gl)
                    elif a[0]=='put_copy':
                        src=view[k+a[1]]
                        if src is not None and not (tgt is rs[k+a[1]] if 0<=k+a[1]<L else False):
                            for f in ('gid','adv','advy','sx','sy','ax','ay','wx','wy','before','after','orig'): setattr(tgt,f,getattr(src,f))
                            tgt.user=list(src.user)
                    elif a[0]=='delete':
                        if stream[cur] is hw:
                            hw=stream[cur+1] if cur+1<len(stream) else None; hp=False
                        stream.pop(cur); tgt='deleted'
                    elif a[0]=='assoc':
                        bs=[view[k+o].before for o in a[1]]; as_=[view[k+o].after for o in a[1]]
                        tgt.before=min(bs); tgt.after=max(as_)
                    elif a[0]=='attr':
                        v=s16(ev(a[2],view,k,seg))
                        if a[1]=='AdvX': tgt.adv=v
                        elif a[1]=='ShiftX': tgt.sx=v
                        elif a[1]=='ShiftY': tgt.sy=v
                        elif a[1]=='AttX': tgt.ax=v
                        elif a[1]=='AttY': tgt.ay=v
                        elif a[1]=='AttWithX': tgt.wx=v
                        elif a[1]=='AttWithY': tgt.wy=v
                    elif a[0]=='attach':
                        other=rs_live[k+a[1]] if 0<=k+a[1]<len(rs_live) else None
                        if other is not None and other is not tgt and other is not tgt.parent:
                            if tgt.parent is not None: tgt.parent.children.remove(tgt); tgt.parent=None
                            # refuse cycles / long chains
                            cnt=0; q=other; found=False
                            while q is not None:
                                cnt+=1
                                if q is tgt: found=True
                                q=q.parent
                            if cnt<100 and not found:
                                if tgt not in other.children: other.children.append(tgt)
                                tgt.parent=other
                                if (fontdir!=0) ^ ((k+a[1])>k): tgt.wx=tgt.adv; tgt.wy=0
                                else: tgt.ax=other.adv; tgt.ay=0
                    elif a[0]=='user':
                        tgt.user[a[1]]=s16(ev(a[2],view,k,seg))
                if tgt=='deleted':
                    isl=stream[cur-1] if cur>0 else None      # 'is' after DELETE = previous slot (or the dead slot)
                    if isl is not None and isl is hw: hp=True
                else:
                    if stream[cur] is hw: hp=True           # NEXT leaving the current slot
                    cur+=1
            out=stream[cur] if cur<len(stream) else None
            out,hp=adjust(stream,out,r.get('ret',0),hw,hp)
            i=stream.index(out) if out is not None else None
            i,hw,hp,lc,stop=loopctl(stream,i,hw,hp,lc,maxloop)
            if stop: break
    associate(stream, len(gids))
    position(stream, fontdir)
    if rev: stream.reverse()
    return stream
class Died(Exception): pass
def nxt(stream,x):
    j=stream.index(x)+1; return stream[j] if j<len(stream) else None
def prv(stream,x):
    j=stream.index(x)-1; return stream[j] if j>=0 else None
def adjust(stream,out,delta,hw,hp):
    if out is None:
        if hp or hw is None:
            out=stream[-1] if stream else None; delta+=1
            if hw is None or hw is out: hp=False
        else:
            out=stream[0] if stream else None; delta-=1
    if delta<0:
        while True:
            delta+=1
            if not (delta<=0 and out is not None): break
            out=prv(stream,out)
            if hp and hw is out: hp=False
    elif delta>0:
        while True:
            delta-=1
            if not (delta>=0 and out is not None): break
            if out is hw: hp=True
            out=nxt(stream,out)
    return out,hp
def loopctl(stream,i,hw,hp,lc,maxloop):
    s=stream[i] if (i is not None and 0<=i<len(stream)) else None
    if s is not None:
        cond = (s is hw) or hp
        if not cond:
            lc-=1; cond=(lc==0)
        if cond:
            if lc==0: s=hw
            lc=maxloop
            if s is not None: hw=nxt(stream,s); hp=False
    if s is None: return None,hw,hp,lc,True
    return stream.index(s),hw,hp,lc,False
def associate(stream, n):
    cb=[-1]*n; ca=[-1]*n
    for i,s in enumerate(stream):
        s.index=i
        if s.before<0: continue
        for j in range(s.before, s.after+1):
            if cb[j]==-1 or i<cb[j]: cb[j]=i
            if ca[j]<i: ca[j]=i
    for s in stream:
        a=s.after+1
        while a<n and ca[a]<0: ca[a]=s.index; a+=1
        s.after=a-1
        a=s.before-1
        while a>=0 and cb[a]<0: cb[a]=s.index; a-=1
        s.before=a+1
    # a character reached by only one of the two extension walks (its slots were deleted at the edge of the text)
    # takes the missing side from the side that was set: both values are slot indices, as the API documents
    for j in range(n):
        if cb[j]<0 and ca[j]>=0: cb[j]=ca[j]
        if ca[j]<0 and cb[j]>=0: ca[j]=cb[j]
    stream_cinfo[0]=[[cb[j],ca[j]] for j in range(n)]
stream_cinfo=[[]]
def setglyph(s,g,gl):
    s.gid=g; s.adv=gl[g]['adv'] if g<len(gl) else 0; s.advy=0
def finalise(s, base, cm, depth=0, rtl=0):
    if depth>100: return (0,0)
    shift=(-s.sx if rtl else s.sx, s.sy)
    s.pos=(base[0]+shift[0], base[1]+shift[1])
    if s.parent is None:
        res=(base[0]+s.adv, base[1]+s.advy); cm[0]=s.pos[0]
    else:
        s.pos=(s.pos[0]+s.ax-s.wx, s.pos[1]+s.ay-s.wy)
        tadv=(s.pos[0]+s.adv-shift[0]) if s.adv>=0.5 else 0
        res=(tadv,0)
        if (s.adv>=0.5 or s.pos[0]<0) and s.pos[0]<cm[0]: cm[0]=s.pos[0]
    if s.children:
        t=finalise(s.children[0], s.pos, cm, depth+1, rtl)
        if (s.parent is None or s.adv>=0.5) and t[0]>res[0]: res=t
    if s.parent is not None:
        sib=s.parent.children; i=sib.index(s)
        if i+1<len(sib):
            t=finalise(sib[i+1], base, cm, depth+1, rtl)
            if t[0]>res[0]: res=t
    if s.parent is None and cm[0]<base[0]:
        adj=s.pos[0]-cm[0]; res=(res[0]+adj,res[1]); s.pos=(s.pos[0]+adj,s.pos[1])
        def flood(c):
            c.pos=(c.pos[0]+adj,c.pos[1])
            for d in c.children: flood(d)
        for c in s.children: flood(c)
    return res
def position(stream, rtl=0):
    cur=(0,0)
    for s in (reversed(stream) if rtl else stream):
        if s.parent is None:
            cur=finalise(s, cur, [cur[0]], 0, rtl)
    stream_adv[0]=cur[0]
    return cur[0]
stream_adv=[0]
def dump(stream):
    adv=stream_adv[0]
    return {'cinfo':stream_cinfo[0],'slots':[{'par':(stream.index(s.parent) if s.parent is not None else -1),'gid':s.gid,'before':s.before,'after':s.after,'orig':s.orig,'advx':s.adv,'sx':s.sx,'sy':s.sy,'user':s.user,'x':s.pos[0],'y':s.pos[1]} for s in stream],'adv':adv}
