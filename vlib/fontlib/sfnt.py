"""sfnt container and the non-Graphite / simple Graphite tables: builders and independent lenient parsers.
All integers big-endian.  Written from the OpenType spec and doc/GTF.adoc, not from the engine's parsers."""
import struct


def be16(*v):
    return b''.join(struct.pack('>H', x & 0xFFFF) for x in v)


def be32(*v):
    return b''.join(struct.pack('>I', x & 0xFFFFFFFF) for x in v)


def u8(*v):
    return bytes([x & 0xFF for x in v])


def tag32(t):
    if isinstance(t, int):
        return t & 0xFFFFFFFF
    b = t.encode('latin1') if isinstance(t, str) else bytes(t)
    b = (b + b'\0\0\0\0')[:4]
    return struct.unpack('>I', b)[0]


# ------------------------------------------------------------------ container
def build_sfnt(tables, order=None):
    tags = order or sorted(tables)
    n = len(tags)
    off = 12 + 16 * n
    dirb = b''
    body = b''
    for t in tags:
        d = tables[t]
        tb = t.encode('latin1') if isinstance(t, str) else t
        dirb += tb + be32(0, off + len(body), len(d))
        body += d + b'\0' * ((-len(d)) % 4)
    return be32(0x00010000) + be16(n, 0, 0, 0) + dirb + body


def parse_sfnt(d):
    """-> {tag: (offset, length)} for entries that lie inside the file."""
    out = {}
    if len(d) < 12:
        return out
    n = struct.unpack('>H', d[4:6])[0]
    for i in range(n):
        e = d[12 + 16 * i:28 + 16 * i]
        if len(e) < 16:
            break
        tag, _, off, ln = struct.unpack('>4sIII', e)
        if off + ln <= len(d):
            out.setdefault(tag.decode('latin1'), (off, ln))
    return out


def tables_of(d):
    return {t: d[o:o + l] for t, (o, l) in parse_sfnt(d).items()}


# ------------------------------------------------------------------ basic tables
def head(upem=1000, loca_long=False):
    return (be32(0x00010000, 0x00010000, 0, 0x5F0F3CF5) + be16(0, upem) + b'\0' * 16 +
            be16(0, 0, upem, upem, 0, 8, 2, 1 if loca_long else 0, 0))


def hhea(nmetrics, ascent=800, descent=-200):
    return be32(0x00010000) + be16(ascent, descent, 0, 1000, 0, 0, 1000, 1, 0, 0, 0, 0, 0, 0, 0, nmetrics)


def maxp(nglyphs):
    return be32(0x00010000) + be16(nglyphs) + b'\0' * 26


def hmtx(advances):
    return b''.join(be16(a, 0) for a in advances)


def glyf_loca(bboxes, loca_long=False):
    """bboxes: list of (xmin,ymin,xmax,ymax) or None (empty glyph)."""
    glyf = b''
    loca = []
    for b in bboxes:
        loca.append(len(glyf))
        if b is not None:
            glyf += be16(0, b[0], b[1], b[2], b[3]) + b'\0\0'
    loca.append(len(glyf))
    glyf += b'\0' * 12     # the engine requires every glyph offset to be < len - 10
    if loca_long:
        return glyf, be32(*loca)
    return glyf, be16(*[x // 2 for x in loca])


# ------------------------------------------------------------------ cmap
def cmap4_segments(m):
    """Greedy segmentation of a {cp: gid} map (cp <= 0xFFFF) into (start, end, delta) runs, plus the 0xFFFF sentinel."""
    segs = []
    for c in sorted(m):
        if c > 0xFFFF:
            continue
        if segs and segs[-1][1] == c - 1 and (m[c] - c) % 65536 == segs[-1][2]:
            segs[-1][1] = c
        else:
            segs.append([c, c, (m[c] - c) % 65536])
    if not segs or segs[-1][1] != 0xFFFF:
        segs.append([0xFFFF, 0xFFFF, 1])
    return segs


def cmap4_subtable(m, use_range_offset=None, rng=None):
    """Format 4 subtable.  use_range_offset: set of segment indices stored through glyphIdArray (idRangeOffset != 0);
    with rng, a random subset is chosen and random idDelta values are mixed in so that 'glyphIdArray value + idDelta' wraps."""
    segs = cmap4_segments(m)
    forced = set()
    if use_range_offset is None and rng is not None:
        # merge neighbouring runs separated by small gaps into one glyphIdArray segment: the unmapped code points in between
        # are stored as 0 ("missing glyph", to which idDelta must NOT be added)
        merged = []
        for sg in segs[:-1]:
            if merged and sg[0] - merged[-1][1] <= 9 and sg[1] - merged[-1][0] < 400 and rng.random() < 0.5:
                merged[-1][1] = sg[1]
                forced.add(len(merged) - 1)
            else:
                merged.append(list(sg))
        segs = merged + [segs[-1]]
    n = len(segs)
    if use_range_offset is None:
        use_range_offset = set()
        if rng is not None:
            use_range_offset = {i for i in range(n - 1) if rng.random() < 0.4} | forced
    gia = []
    ro = [0] * n
    deltas = [s[2] for s in segs]
    for i, (a, b, d) in enumerate(segs):
        if i in use_range_offset and i < n - 1:
            delta = rng.randrange(0, 65536) if (rng is not None and rng.random() < 0.5) else 0
            # offset is measured from the idRangeOffset[i] word itself
            ro[i] = 2 * (n - i) + 2 * len(gia)
            deltas[i] = delta
            for c in range(a, b + 1):
                g = m.get(c, 0)
                gia.append((g - delta) % 65536 if g else 0)     # stored 0 means "missing glyph" whatever the delta
    length = 16 + 8 * n + 2 * len(gia)
    sr = 1
    while sr * 2 <= n:
        sr *= 2
    return (be16(4, length & 0xFFFF, 0, 2 * n, 2 * sr, sr.bit_length() - 1, 2 * n - 2 * sr) + be16(*[s[1] for s in segs]) + be16(0) +
            be16(*[s[0] for s in segs]) + be16(*deltas) + be16(*ro) + be16(*gia))


def cmap12_subtable(groups):
    groups = sorted(groups)
    return be16(12, 0) + be32(16 + 12 * len(groups), 0, len(groups)) + b''.join(be32(a, b, g) for a, b, g in groups)


def cmap(m, groups12=None, rng=None, range_offsets=None, bmp_ids=(3, 1), smp_ids=(3, 10)):
    subs = [(bmp_ids[0], bmp_ids[1], cmap4_subtable(m, range_offsets, rng))]
    if groups12 is not None:
        subs.append((smp_ids[0], smp_ids[1], cmap12_subtable(groups12)))
    subs.sort(key=lambda s: (s[0], s[1]))
    hdr = be16(0, len(subs))
    off = 4 + 8 * len(subs)
    body = b''
    for p, e, s in subs:
        hdr += be16(p, e) + be32(off + len(body))
        body += s
    return hdr + body


def cmap_reference(d):
    """Independent cmap reader over a whole font file: {cp: gid} for all mapped code points (gid != 0), following the
    subtable preference order the engine documents: BMP (3,1),(0,3),(0,2),(0,1),(0,0) format 4; SMP (3,10),(0,4) format 12."""
    T = parse_sfnt(d)
    if 'cmap' not in T:
        return {}
    co, cl = T['cmap']
    c = d[co:co + cl]
    n = struct.unpack('>H', c[2:4])[0]
    subs = {}
    for i in range(n):
        p, e, o = struct.unpack('>HHI', c[4 + 8 * i:12 + 8 * i])
        subs.setdefault((p, e), o)
    m = {}
    bmp = smp = None
    for k in [(3, 1), (0, 3), (0, 2), (0, 1), (0, 0)]:
        if k in subs and struct.unpack('>H', c[subs[k]:subs[k] + 2])[0] == 4:
            bmp = subs[k]
            break
    for k in [(3, 10), (0, 4)]:
        if k in subs and struct.unpack('>H', c[subs[k]:subs[k] + 2])[0] == 12:
            smp = subs[k]
            break
    if bmp is not None:
        t = c[bmp:]
        length = struct.unpack('>H', t[2:4])[0]
        sc = struct.unpack('>H', t[6:8])[0] // 2
        end = struct.unpack('>%dH' % sc, t[14:14 + 2 * sc])
        st = struct.unpack('>%dH' % sc, t[16 + 2 * sc:16 + 4 * sc])
        dl = struct.unpack('>%dH' % sc, t[16 + 4 * sc:16 + 6 * sc])
        ro = struct.unpack('>%dH' % sc, t[16 + 6 * sc:16 + 8 * sc])
        for i in range(sc):
            for u in range(st[i], end[i] + 1):
                if u in m:
                    continue      # the first segment whose endCode >= u decides
                if ro[i] == 0:
                    g = (u + dl[i]) & 0xFFFF
                else:
                    pos = 16 + 6 * sc + 2 * i + ro[i] + 2 * (u - st[i])
                    if pos + 2 > length:
                        g = 0
                    else:
                        g = struct.unpack('>H', t[pos:pos + 2])[0]
                        if g:
                            g = (g + dl[i]) & 0xFFFF
                m[u] = g
    if smp is not None:
        t = c[smp:]
        ng = struct.unpack('>I', t[12:16])[0]
        for i in range(ng):
            a, b, g = struct.unpack('>III', t[16 + 12 * i:28 + 12 * i])
            for u in range(max(a, 0x10000), min(b, 0x10FFFF) + 1):
                if u not in m:
                    m[u] = (g + u - a) & 0xFFFF
    return {u: g for u, g in m.items() if g}


# ------------------------------------------------------------------ name
def name_table(recs):
    """recs: list of (platform, encoding, language, name id, bytes)."""
    n = len(recs)
    data = b''
    out = b''
    for p, e, l, i, b in recs:
        out += be16(p, e, l, i, len(b), len(data))
        data += b
    return be16(0, n, 6 + 12 * n) + out + data


# ------------------------------------------------------------------ Feat / Sill
def feat_table(feats, version=2):
    """feats: list of dict(id, settings=[(value, label)], label=name id, flags=0) in table order."""
    n = len(feats)
    recsz = 16 if version >= 2 else 12
    hdr = be32(0x00020000 if version >= 2 else 0x00010000) + be16(n, 0) + be32(0)
    base = 12 + recsz * n
    recs = b''
    sets = b''
    for f in feats:
        st = f.get('settings', [])
        off = base + len(sets)
        if version >= 2:
            recs += be32(f['id']) + be16(len(st), 0) + be32(off) + be16(f.get('flags', 0), f.get('label', 256))
        else:
            recs += be16(f['id'], len(st)) + be32(off) + be16(f.get('flags', 0), f.get('label', 256))
        for v, l in st:
            sets += be16(v, l)
    out = hdr + recs + sets
    # the engine sizes its sanity check with the 16-byte (v2) record for both versions: a v1 table with few settings
    # must be padded to 12 + 16 n bytes or the (valid) font is refused
    if len(out) < 12 + 16 * n:
        out += b'\0' * (12 + 16 * n - len(out))
    return out


def sill_table(langs):
    """langs: list of (tag, [(feature id, value)])."""
    n = len(langs)
    hdr = be32(0x00010000) + be16(n, 0, 0, 0)
    base = 12 + 8 * (n + 1)
    ents = b''
    sets = b''
    for tag, st in langs:
        ents += be32(tag32(tag)) + be16(len(st), base + len(sets))
        for fid, val in st:
            sets += be32(fid) + be16(val, 0)
    ents += be32(0) + be16(0, base + len(sets))
    return hdr + ents + sets


# ------------------------------------------------------------------ Glat / Gloc
def _runs(attrs):
    keys = sorted(attrs)
    i = 0
    while i < len(keys):
        j = i
        while j + 1 < len(keys) and keys[j + 1] == keys[j] + 1:
            j += 1
        yield keys[i], [attrs[k] for k in keys[i:j + 1]]
        i = j + 1


def glat_gloc(glyph_attrs, nattrs, version=1, long_offsets=False, attr_ids=False, octaboxes=None, glat_flags=None, run_style='max', dense=False):
    """glyph_attrs: list of {attr id: value}; octaboxes: optional list (per glyph) of None or
    dict(bitmap=uint16, diag=(4 bytes), sub=[8 bytes per set bit])  (Glat v3 only).
    run_style: 'max' (maximal runs, what compilers emit) | 'single' (one run per attribute) | 'split' (runs cut in two) - all legal and
    equivalent; dense: attributes the glyph does not set are stored explicitly as 0 (the default), which makes entries long
    ('all' = every glyph, 'odd' = glyphs with odd ids, 'late' = glyph ids >= 3: glyph 0, which every face loads at once, stays short)."""
    if version >= 3:
        glat = be32(0x00030000) + be32(glat_flags if glat_flags is not None else (1 if octaboxes else 0))
    else:
        glat = be32(0x00010000 if version == 1 else 0x00020000)
    locs = []
    for gi, a in enumerate(glyph_attrs):
        locs.append(len(glat))
        a = dict(a) or {0: 0}
        if dense == 'all' or dense is True or (dense == 'odd' and gi % 2 == 1) or (dense == 'late' and gi >= 3):
            for k in range(min(nattrs, 250)):
                a.setdefault(k, 0)
        if version >= 3:
            ob = (octaboxes[gi] if octaboxes else None) or dict(bitmap=0, diag=(0, 255, 0, 255), sub=[])
            glat += be16(ob['bitmap']) + u8(*ob['diag'])
            for sb in ob['sub']:
                glat += u8(*sb)
        runs = list(_runs(a))
        if run_style == 'single':
            runs = [(first + i, [v]) for first, vals in runs for i, v in enumerate(vals)]
        elif run_style == 'split':
            runs = [piece for first, vals in runs for piece in (((first, vals[:(len(vals) + 1) // 2]), (first + (len(vals) + 1) // 2, vals[(len(vals) + 1) // 2:])) if len(vals) > 1 else ((first, vals),))]
        for first, vals in runs:
            while vals:
                chunk = vals[:255]
                glat += (u8(first, len(chunk)) if version == 1 else be16(first, len(chunk))) + be16(*chunk)
                first += len(chunk)
                vals = vals[255:]
    locs.append(len(glat))
    flags = (1 if long_offsets else 0) | (2 if attr_ids else 0)
    gloc = be32(0x00010000) + be16(flags, nattrs) + (be32(*locs) if long_offsets else be16(*locs))
    if attr_ids:
        gloc += be16(*range(nattrs))
    return glat, gloc
