"""LZ4 block format: a deliberately lenient reference decoder (the format only) and a family of encoders.
Written from the LZ4 block format description; independent of src/Decompressor.cpp."""
import struct


class Malformed(ValueError):
    pass


def decode(src, maxout=None):
    """Strict-on-structure reference decode of one block; raises Malformed."""
    out, ok = decode_prefix(src, maxout)
    if not ok:
        raise Malformed('malformed block')
    return out


def decode_prefix(src, maxout=None):
    """Decode as far as the format allows -> (bytes produced so far, True iff the whole input is a well-formed block)."""
    out = bytearray()
    i = 0
    n = len(src)
    while i < n:
        tok = src[i]
        i += 1
        ll = tok >> 4
        if ll == 15:
            while True:
                if i >= n:
                    return bytes(out), False
                b = src[i]
                i += 1
                ll += b
                if b != 255:
                    break
        if i + ll > n:
            out += src[i:n]
            return bytes(out), False
        out += src[i:i + ll]
        i += ll
        if i >= n:
            return bytes(out), True
        if i + 2 > n:
            return bytes(out), False
        off = src[i] | (src[i + 1] << 8)
        i += 2
        ml = tok & 15
        if ml == 15:
            while True:
                if i >= n:
                    return bytes(out), False
                b = src[i]
                i += 1
                ml += b
                if b != 255:
                    break
        ml += 4
        if off == 0 or off > len(out):
            return bytes(out), False
        for _ in range(ml):
            out.append(out[-off])
        if maxout is not None and len(out) > maxout:
            return bytes(out), False
    return bytes(out), True


def _emit(out, lit, off, ml):
    ll = len(lit)
    tok = (min(ll, 15) << 4) | (min(ml - 4, 15) if ml else 0)
    out.append(tok)
    if ll >= 15:
        r = ll - 15
        while r >= 255:
            out.append(255)
            r -= 255
        out.append(r)
    out.extend(lit)
    if ml:
        out.extend(struct.pack('<H', off))
        if ml - 4 >= 15:
            r = ml - 4 - 15
            while r >= 255:
                out.append(255)
                r -= 255
            out.append(r)


def encode(data, rng=None, mode='greedy'):
    """A valid LZ4 block for data: the last 5 bytes are literals and the last match starts >= 12 bytes before the end.
    mode: greedy (latest candidate, longest match) | random (random candidate, random match length, random skips)
          | overlap (prefers offsets 1..7, i.e. overlapping copies) | literal (no matches at all)."""
    n = len(data)
    out = bytearray()
    i = 0
    anchor = 0
    table = {}
    if mode == 'literal':
        _emit(out, data, 0, 0)
        return bytes(out)
    if mode == 'barely':
        return _encode_barely(data, rng)
    while i < n - 12:
        key = data[i:i + 4]
        cand = list(table.get(key, ()))
        table.setdefault(key, []).append(i)
        use = None
        cs = [c for c in cand if i - c <= 65535]
        if mode == 'overlap':
            # an overlapping match exists whenever the last k bytes repeat: try offsets 1..7 directly
            for off in range(1, 8):
                if i - off >= 0 and data[i - off:i - off + 4] == key and (rng is None or rng.random() < 0.9):
                    use = i - off
                    break
        if use is None and cs:
            if mode == 'greedy' or rng is None:
                use = cs[-1]
            else:
                c = rng.choice(cs)
                if rng.random() < 0.85:
                    use = c
        if use is None:
            i += 1
            continue
        ml = 4
        while i + ml < n - 5 and data[use + ml] == data[i + ml]:
            ml += 1
        if mode == 'random' and rng is not None and ml > 4 and rng.random() < 0.5:
            ml = rng.randrange(4, ml + 1)
        _emit(out, data[anchor:i], i - use, ml)
        i += ml
        anchor = i
    _emit(out, data[anchor:], 0, 0)
    return bytes(out)


def _final_run_size(ll):
    return 1 + (0 if ll < 15 else 1 + (ll - 15) // 255) + ll


def _encode_barely(data, rng):
    """A valid block that is only 1..8 bytes shorter than the data (the contract's boundary: 'shorter than the data'): greedy matches
    until the block, closed with one final literal run, would shrink; the last match is shortened to land d bytes below len(data)."""
    n = len(data)
    d = (rng.choice([1, 1, 2, 3, 4, 7, 8]) if rng is not None else 1)
    out = bytearray()
    i = anchor = 0
    table = {}
    while i < n - 12:
        key = data[i:i + 4]
        cs = [c for c in table.get(key, ()) if i - c <= 65535]
        table.setdefault(key, []).append(i)
        if not cs:
            i += 1
            continue
        use = cs[-1]
        ml = 4
        while i + ml < n - 5 and data[use + ml] == data[i + ml]:
            ml += 1
        best = None
        for m in range(ml, 3, -1):
            t = bytearray(out)
            _emit(t, data[anchor:i], i - use, m)
            total = len(t) + _final_run_size(n - (i + m))
            if total <= n - 1:
                if best is None or abs((n - total) - d) < abs((n - best[1]) - d):
                    best = (m, total)
        if best is not None and n - best[1] <= 8:
            _emit(out, data[anchor:i], i - use, best[0])
            anchor = i + best[0]
            break
        _emit(out, data[anchor:i], i - use, ml)
        i += ml
        anchor = i
    _emit(out, data[anchor:], 0, 0)
    return bytes(out)


def compress_table(plain, rng=None, mode='greedy'):
    """Graphite compressed-table layout: version word, (scheme 1 << 27 | size), LZ4 block of the whole plaintext."""
    c = encode(plain, rng, mode)
    assert decode(c) == plain
    return plain[:4] + struct.pack('>I', (1 << 27) | len(plain)) + c


def decompress_table(x):
    ver, hdr = struct.unpack('>II', x[:8])
    scheme = hdr >> 27
    size = hdr & 0x07FFFFFF
    if scheme == 0:
        return x
    if scheme != 1:
        raise Malformed('scheme')
    p = decode(x[8:])
    if len(p) != size or struct.unpack('>I', p[:4])[0] != ver:
        raise Malformed('size/version')
    return p
