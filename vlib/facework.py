"""Workload shared by C01 and C16: h_face over shipped and synthesised base fonts x mutation kinds."""
import glob
import os

from . import build, fonts, synthwork

FUZZDIR = os.path.join(build.REPO, 'tests', 'fuzz-tests')
# error codes of src/inc/Error.h that a table can trigger (E_OUTOFMEM and the code-failure offsets are listed for reference)


def fuzz_files():
    out = []
    for f in sorted(glob.glob(os.path.join(FUZZDIR, '*', '*', '*.fuzz'))):
        fontname = f.split(os.sep)[-3]
        if fontname == 'libfuzz-corpus':
            continue
        fp = fonts.font(fontname + '.ttf')
        if os.path.exists(fp):
            out.append((fp, f))
    return out


def run(chk, judge, weights):
    """weights: dict mutation kind -> (cases per shipped base font quick, thorough)."""
    quick = chk.tier == 'quick'
    cov = chk.coverage
    scratch = os.path.join(build.WORK, 'tmp')
    os.makedirs(scratch, exist_ok=True)
    parts = []
    bases = [(f, t) for f, t, _ in fonts.shipped() if os.path.getsize(f) < 1000000] + [(fonts.font('tiny.ttf'), '')]
    nsh = 2 if quick else 8
    for fpath, tpath in bases:
        for mut, (q, th) in weights.items():
            n = q if quick else th
            if mut == 'fuzz' or n <= 0:
                continue
            if os.path.getsize(fpath) < 4000 and mut in ('sweep', 'field', 'rel'):
                n *= 2
            args = ['--font', fpath, '--mut', mut, '--scratch', scratch, '--judge', judge]
            if tpath:
                args += ['--texts', tpath]
            parts.append(dict(harness='h_face', flavour='asan', args=args, cases=max(1, n // nsh), nshards=nsh, nsamples=1 if mut in ('sweep', 'field', 'rel', 'tail', 'cut') else 0))
    if 'fuzz' in weights:
        q, th = weights['fuzz']
        for fpath, ff in fuzz_files():
            parts.append(dict(harness='h_face', flavour='asan', args=['--font', fpath, '--mut', 'fuzz', '--fuzzfile', ff, '--scratch', scratch, '--judge', judge, '--shape', 2],
                              cases=max(1, (q if quick else th) // nsh), nshards=nsh, nsamples=0))
    # synthesised bases: small fonts where half of every file is Silf/Glat, all container variants
    nsynth = 0
    for kind, cnt in (('c06', 24 if quick else 300), ('hostile', 12 if quick else 150), ('just', 12 if quick else 150), ('feat', 24 if quick else 300)):
        lst, paths = synthwork.make_fonts(kind, chk.seed, cnt)
        paths = [p_ for p_ in paths if '_jx' not in p_]          # (justification arithmetic at the attribute range's edges: C19's KF-C19-3)
        nsynth += len(paths)
        for p in paths:
            for mut, (q, th) in weights.items():
                if mut == 'fuzz':
                    continue
                n = (q if quick else th) // 12
                if n > 0:
                    parts.append(dict(harness='h_face', flavour='asan', args=['--font', p, '--mut', mut, '--scratch', scratch, '--judge', judge], cases=n, nshards=1, nsamples=0))
    # multi-shard parts (nshards processes each) a few at a time, single-process parts sixteen at a time
    wide = [p_ for p_ in parts if p_['nshards'] > 1]
    narrow = [p_ for p_ in parts if p_['nshards'] <= 1]
    chk.run_parts(wide, workers=8 if quick else 2)
    chk.run_parts(narrow, workers=16)
    t = chk.tot
    cov['evaluations'] = int(t.get('loads', 0))
    cov['distinct_nontrivial'] = int(t.get('mutated_font_loaded', 0) + t.get('load_failed', 0))
    for k in ('loads', 'load_ok', 'load_failed', 'mutated_font_loaded', 'file_faces', 'segments', 'segments_returned', 'table_gets', 'table_releases', 'max_outstanding_tables',
              'lib_allocations', 'rules_fired', 'deferred_destroys'):
        cov[k] = int(t.get(k, 0))
    codes = {int(k): v for k, v in t.get('error_codes', {}).items()}
    cov['load_failure_codes_observed'] = {str(k): codes[k] for k in sorted(codes)}
    cov['distinct_load_failure_codes'] = len([k for k in codes if k >= 0])
    cov['load_failure_codes_never_hit_of_0_to_64'] = [k for k in range(1, 65) if k not in codes]
    cov['gets_by_tag'] = t.get('gets_by_tag', {})
    cov['loads_by_option'] = t.get('by_opt', {})
    cov['base_fonts'] = len(bases)
    cov['synth_base_fonts'] = nsynth
    cov['fuzz_files'] = len(fuzz_files()) if 'fuzz' in weights else 0
    cov['cross_observations_not_judged_here'] = {k: int(v) for k, v in t.items() if k.startswith('xobs_')}
    cov['samples'] = cov['samples'][:16]
    return t
