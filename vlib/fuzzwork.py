"""libFuzzer runs for the thorough tiers (clang flavour 'fuzz'): bounded by -runs, seeded with synthesised fonts."""
import glob
import os
import re
import shutil
import subprocess

from . import build, synthwork
from . import run as R


def run_fuzz(chk, target, runs, seeds_kind=None, max_len=16384, jobs=16):
    exe = build.harness(target, 'fuzz')
    root = os.path.join(build.WORK, 'fuzz', '%s-%d' % (target, chk.seed))
    shutil.rmtree(root, ignore_errors=True)
    corp = os.path.join(root, 'corpus')
    art = os.path.join(root, 'artifacts')
    os.makedirs(corp)
    os.makedirs(art)
    nseeds = 0
    if seeds_kind:
        for kind, cnt in seeds_kind:
            lst, paths = synthwork.make_fonts(kind, chk.seed, cnt)
            for i, p in enumerate(paths):
                with open(p, 'rb') as f:
                    d = f.read()
                with open(os.path.join(corp, '%s-%d' % (kind, i)), 'wb') as f:
                    f.write(d + bytes([i & 0xFF]))
                nseeds += 1
    else:
        with open(os.path.join(corp, 'seed0'), 'wb') as f:
            f.write(b'\x00\x20' + b'\x10abcdefghabcdefgh' * 2)
        nseeds = 1
    env = dict(os.environ)
    env.update(R.SAN_ENV)
    env['ASAN_OPTIONS'] = env['ASAN_OPTIONS'].replace('detect_leaks=1', 'detect_leaks=1') + ':quarantine_size_mb=8'
    per_job = max(1, runs // jobs)
    p = subprocess.run([exe, corp, '-runs=%d' % per_job, '-max_len=%d' % max_len, '-jobs=%d' % jobs, '-workers=%d' % jobs, '-artifact_prefix=' + art + '/',
                        '-timeout=30', '-rss_limit_mb=4096', '-print_final_stats=1'], cwd=root, capture_output=True, text=True, env=env, timeout=6 * 3600)
    execs = 0
    for lf in glob.glob(os.path.join(root, 'fuzz-*.log')):
        txt = open(lf, errors='replace').read()
        m = re.findall(r'stat::number_of_executed_units:\s*(\d+)', txt)
        if m:
            execs += int(m[-1])
    crashes = sorted(glob.glob(os.path.join(art, '*')))
    not_reproduced = 0
    for c in crashes[:20]:
        rc, out, err = R.run_one(exe, [c], env=None, wall=120)
        kind, site = R.parse_report(err)
        mo = re.search(r'FUZZ-ORACLE ([\w-]+)', err)
        if rc == 0 and not kind and not mo:
            # slow-unit-* files and time-outs that do not reproduce when the input runs alone: the wall clock of a loaded machine, not a finding
            not_reproduced += 1
            continue
        if mo:
            key = 'fuzz:oracle:' + mo.group(1)
        elif kind:
            key = 'fuzz:san:%s:%s' % (kind, site)
        elif 'timeout' in os.path.basename(c):
            key = 'fuzz:hang'
        else:
            key = 'fuzz:crash'
        from . import check as _check
        keep = os.path.join(_check.EVID, 'replay', chk.prop)          # honours VERIF_EVIDENCE_DIR
        os.makedirs(keep, exist_ok=True)
        dst = os.path.join(keep, os.path.basename(c))
        shutil.copy(c, dst)
        chk.violation(key, 'libFuzzer artifact %s' % dst, dict(harness=target, flavour='fuzz', artifact=dst, report=err[-4000:]))
    ncorp = len(os.listdir(corp))
    chk.coverage['fuzz_' + target] = dict(executions=execs, seeds=nseeds, corpus_units_after=ncorp, artifacts=len(crashes), artifacts_not_reproduced_alone=not_reproduced, runs_requested=runs)
    shutil.rmtree(root, ignore_errors=True)
    return execs
