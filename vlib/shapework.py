"""Workload shared by C02..C05: h_shape over shipped fonts (texts written for them, random strings over the
repertoire, hostile strings, 3 encodings, dir 0..7, features, fonts) and over synthesised / hostile GDL-lite fonts."""
import os

from . import build, fonts


def run(chk, judge, per_font_quick, per_font_thorough, synth=True, synth_kinds=('hostile',), flavours=('asan',), mutated=False):
    quick = chk.tier == 'quick'
    per = per_font_quick if quick else per_font_thorough
    cov = chk.coverage
    nsh = 2 if quick else 8
    parts = []
    for fpath, tpath, _ in fonts.shipped():
        big = os.path.getsize(fpath) > 1000000
        n = per // 2 if big else per
        parts.append(dict(harness='h_shape', flavour='asan', args=['--font', fpath, '--texts', tpath, '--realgids', 1, '--hostile', 1, '--judge', judge],
                          cases=max(1, n // nsh), nshards=nsh, nsamples=1))
    chk.run_parts(parts, workers=8 if quick else 2)
    nshipped = len(fonts.shipped())
    nsynth = 0
    if synth:
        from . import synthwork
        for kind in synth_kinds:
            nsynth += synthwork.run_fontlist(chk, kind, judge, quick, flavours)
    t = chk.tot
    cov['evaluations'] = int(t.get('segments', 0))
    cov['distinct_nontrivial'] = int(t.get('nontrivial', 0))
    cov['rule'] = ('one case = (font, face option in {default, preloadAll, cacheCmap}, text, encoding, dir 0..7, feature values, gr_font or NULL) drawn from a per-case seed; '
                   'texts: lines / substrings / permutations of the test text written for the font, random strings over the repertoire found via gr_face_is_char_supported, runs and '
                   'alternations (loop limits), hostile characters, lengths up to 4000, damaged (ill-formed) unit strings. Non-trivial: the segment has >= 2 slots and at least one rule '
                   'fired (H2 hook); distinct by per-case seed.')
    for k in ('segments', 'null_segments', 'illformed_texts', 'segs_with_attachments', 'segs_length_changed', 'rules_fired', 'pass_runs', 'fonts_loaded',
              'fonts_not_loaded', 'lib_allocations', 'max_slots'):
        cov[k] = int(t.get(k, 0))
    cov['max_growth_slots_per_char'] = round(t.get('max_growth_x100', 0) / 100.0, 2)
    cov['max_loop_iterations_over_bound'] = round(t.get('max_loop_ratio_x1e6', 0) / 1e6, 6)
    cov['by_dir'] = t.get('by_dir', {})
    cov['by_enc'] = t.get('by_enc', {})
    cov['shipped_fonts'] = nshipped
    cov['synth_fonts'] = nsynth
    cov['cross_observations_not_judged_here'] = {k: int(v) for k, v in t.items() if k.startswith('xobs_')}
    cov['samples'] = cov['samples'][:16]
    chk.require(t.get('rules_fired', 0) > 1000, 'too few rule firings observed')
    chk.require(t.get('pass_runs', 0) > 100, 'H1 hook never reached')
