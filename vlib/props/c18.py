"""C18 - feature values are an isolated, range-checked map with font defaults (DESIGN.md section 5, C18)."""
from .. import fonts, synthwork

META = dict(
    technique='reference-model monitor: the font\'s Feat / Sill / name tables parsed independently in the harness give a value map, range limits, per-language defaults and label strings; seeded set/get/clone/for_lang/destroy histories with read-back of EVERY feature after EVERY operation; ASan+UBSan build',
    level='exploration: shipped fonts and synthesised Feat tables (1..2200 features, value widths 0..16 bits and unbounded so the packed storage straddles 32-bit words in every way and exceeds 256 words / 65535 bits, v1 and v2 layouts, hidden features, negative setting values) with 0..40 Sill languages '
          'and name tables in several layouts; success of gr_fref_set_feature_value, isolation, failure atomicity, per-language defaults (zero- and space-padded tags, unknown tags, the id-1 language feature), clone equality and labels in three encodings with terminators are judged against the model',
    note='duplicate feature ids are not generated (lookup by id is ambiguous); lookups by id are judged only for ids not ending in a pad byte (0x20/0x00: indistinguishable from a padded tag); the label oracle demands the string of the record for the language the API reports back and that an exact (name, language) record wins, not a particular fallback order',
)


def run(chk):
    quick = chk.tier == 'quick'
    cov = chk.coverage
    parts = []
    for fpath, _, _ in fonts.shipped():
        parts.append(dict(harness='h_feat', flavour='asan', args=['--font', fpath, '--ops', 200 if quick else 500], cases=16 if quick else 400, nshards=2 if quick else 8, nsamples=1))
    lst, paths = synthwork.make_fonts('feat', chk.seed, 60 if quick else 1000)
    for p in paths:
        parts.append(dict(harness='h_feat', flavour='asan', args=['--font', p, '--ops', 200 if quick else 500, '--opt', 6 if hash(p) % 2 else 0], cases=16 if quick else 100, nshards=1, nsamples=0))
    chk.run_parts(parts, workers=12)
    t = chk.tot
    cov['evaluations'] = int(t.get('ops', 0))
    cov['distinct_nontrivial'] = int(t.get('op_set_accepted', 0) + t.get('op_set_rejected', 0))
    cov['rule'] = ('one case = one history of N operations over a pool of feature-value objects of one face; evaluations = operations; every operation is followed by a read-back of all features of the touched object; '
                   'non-trivial = set operations (accepted and rejected), distinct by (history seed, position)')
    for k in ('fonts', 'fonts_not_loaded', 'fonts_with_duplicate_feature_ids_skipped', 'histories', 'readbacks', 'op_for_lang', 'op_for_lang_space_padded', 'op_clone', 'op_destroy', 'op_set_accepted', 'op_set_rejected',
              'label_queries', 'labels_matched', 'max_features'):
        cov[k] = int(t.get(k, 0))
    cov['load_errors'] = t.get('load_error', {})
    cov['shipped_fonts'] = len(fonts.shipped())
    cov['synth_fonts'] = len(paths)
    cov['samples'] = cov['samples'][:12]
    chk.require(t.get('labels_matched', 0) > 1000, 'too few labels compared')
    chk.require(t.get('op_set_rejected', 0) > 1000 and t.get('op_set_accepted', 0) > 1000, 'need accepted and rejected sets')
    chk.require(t.get('max_features', 0) >= 257, 'no font with more than 256 features was exercised')
