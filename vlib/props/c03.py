"""C03 - every returned segment exposes a well-formed glyph stream (DESIGN.md section 5, C03)."""
from .. import shapework

META = dict(
    technique='invariant walker over the public API (next/prev chain, index permutation, finiteness, gid range) run on every segment of a hostile workload under ASan+UBSan',
    level='exploration: MON-STRUCT-3 walks every segment returned for shipped fonts (all texts, dir 0..7, 3 encodings, features, fonts) and for well-formed and hostile synthesised programs '
          '(insert/delete at both ends, reordering, reverse-direction, PUT_COPY in any pass); the gid clause is judged only for fonts whose classes name real glyphs',
    note='the walker is the oracle (visited-set walk, exact count, prev inverse, index permutation, isfinite); streams that are well formed but wrong are C06\'s business',
)


def run(chk):
    shapework.run(chk, 'C03', 1600, 150000, synth=True, synth_kinds=('hostile', 'c06'))
