"""C10 - face options change resource behaviour, never results (DESIGN.md section 5, C10)."""
from .. import fonts, synthwork

META = dict(
    technique='differential monitor: 16 configurations (options 0..7 x {instrumented table callbacks, file face}) of the same font in one process, textual equality of face self-report and canonical segment dumps, under ASan+UBSan',
    level='exploration: for every shipped loadable font and for well-formed synthesised fonts (Silf v2..v5, Glat v1..v3, Gloc short/long, lookup classes, features) the 16 faces must give the same glyph count, features, '
          'labels, languages, per-language feature values, character support over the repertoire, and byte-identical dumps for every seeded text/encoding/dir/feature/ppm case',
    note='equality is textual over the public API (same process, same floating-point path => exact); ill-formed fonts are outside the statement and not used',
)


def run(chk):
    quick = chk.tier == 'quick'
    cov = chk.coverage
    parts = []
    for fpath, tpath, _ in fonts.shipped():
        parts.append(dict(harness='h_diff', flavour='asan', args=['--part', 'opts', '--font', fpath, '--texts', tpath], cases=120 if quick else 3000, nshards=2 if quick else 8, nsamples=1))
    lst, paths = synthwork.make_fonts('c06', chk.seed, 40 if quick else 600)
    # cmap-centred fonts (format 12 groups at plane boundaries, U+10000, U+FFFF, glyphIdArray holes): the cached and direct lookup paths
    lst2, paths2 = synthwork.make_fonts('cmap', chk.seed, 24 if quick else 300)
    paths = paths + paths2
    for p in paths:
        parts.append(dict(harness='h_diff', flavour='asan', args=['--part', 'opts', '--font', p], cases=20 if quick else 100, nshards=1, nsamples=0))
    chk.run_parts(parts, workers=10)
    t = chk.tot
    cov['evaluations'] = int(t.get('segments', 0))
    cov['distinct_nontrivial'] = int(t.get('nontrivial', 0))
    cov['rule'] = ('one case = (font, text, encoding, dir 0..7, feature values, ppm) shaped on 16 faces of that font; evaluations counts segments (16 per case). '
                   'Non-trivial: the reference configuration returns a segment for a text of >= 2 characters; distinct by per-case seed.')
    cov['self_reports_compared'] = int(t.get('reports_compared', 0))
    cov['configurations'] = 16
    cov['shipped_fonts'] = len(fonts.shipped())
    cov['synth_fonts'] = len(paths)
    cov['fonts_not_loaded'] = int(t.get('fonts_not_loaded', 0))
    cov['cross_observations_not_judged_here'] = {k: int(v) for k, v in t.items() if k.startswith('xobs_')}
    cov['samples'] = cov['samples'][:12]
    chk.require(t.get('reports_compared', 0) >= 15 * len(fonts.shipped()), 'self-reports not compared for every shipped font')
