"""C09 - a preloaded face and unhinted font can be shared by concurrent shapers (DESIGN.md section 5, C09)."""
import os
import re
from concurrent.futures import ThreadPoolExecutor

from .. import build, fonts
from .. import run as R

META = dict(
    technique='ThreadSanitizer build of the library + N-thread stress harness (barrier start, rotated/disjoint text lists, yields between API calls) + atomic table-callback counter + per-thread dump vs sequential reference; sensitivity control on a lazy face',
    level='exploration: for shipped fonts x N in {2,4,8,16} x repetitions (fresh cold shared face each), threads shape, query features/labels and destroy their own segments on one gr_face_preloadAll face and shared unhinted fonts; '
          'any TSan report block, any get_table after gr_make_face, any per-thread dump different from the single-threaded reference (computed on another face object) is a violation; the same workload on a gr_face_default face must make TSan fire (control)',
    note='TSan sees only races between accesses that both occur in a run; reads of memory that no thread writes are not races; reports are de-duplicated by stack pair without line numbers; the control never produces a VIOLATION, its silence makes the run inconclusive',
)

_BLOCK = re.compile(r'WARNING: ThreadSanitizer: ([\w -]+?) \(pid=\d+\)(.*?)(?=\n=+\n|\Z)', re.S)
_FR = re.compile(r'#\d+ (\S+) .*?/(src|harness)/([\w./-]+?):\d+')


def tsan_reports(err):
    """-> {signature: first block} de-duplicated by kind + frames in src/ without line numbers."""
    out = {}
    for m in _BLOCK.finditer(err):
        kind = m.group(1).strip().replace(' ', '-')
        frames = [f.group(1).split('(')[0] for f in _FR.finditer(m.group(2)) if f.group(2) == 'src'][:6]
        sig = kind + ':' + '/'.join(dict.fromkeys(frames))
        out.setdefault(sig, m.group(0)[:3000])
    return out


def run(chk):
    quick = chk.tier == 'quick'
    cov = chk.coverage
    exe = build.harness('h_thread', 'tsan')
    flist = fonts.shipped()
    if quick:
        flist = [f for f in flist if any(n in f[0] for n in ('Padauk', 'Scheherazadegr.ttf', 'Awami_test', 'charis_r_gr', 'general', 'small', 'Annapurna', 'PigLatin'))]
    jobs = []
    for fpath, tpath, _ in flist:
        for n in (2, 4, 8, 16):
            jobs.append((fpath, tpath, n, 0))
        jobs.append((fpath, tpath, 8, 1))      # control

    def one(job):
        fpath, tpath, n, control = job
        big = os.path.getsize(fpath) > 300000            # TSan on the collision fonts is an order of magnitude slower per segment
        args = ['--seed', chk.seed, '--font', fpath, '--texts', tpath, '--threads', n, '--reps', (3 if quick else (4 if big else 12)), '--jobs', (60 if quick else 200), '--control', control]
        rc, out, err = R.run_one(exe, args, wall=(600 if quick else 3000))
        return job, rc, out, err, args

    with ThreadPoolExecutor(3) as ex:
        results = list(ex.map(one, jobs))
    tot = {}
    control_reports = 0
    control_runs = 0
    races = {}
    for (fpath, tpath, n, control), rc, out, err, args in results:
        res = R.ShardResult()
        res.cmd = [exe] + [str(a) for a in args]
        R._parse_stdout(out, res)
        reps = tsan_reports(err)
        if control:
            control_runs += 1
            control_reports += len(reps)
            continue
        for s in res.stats:
            R._merge(tot, s)
        cov['samples'].extend(res.samples[:1])
        for key, text in res.violations:
            chk.violation(key, text, dict(harness='h_thread', flavour='tsan', cmd=res.cmd, text=text))
        for sig, block in reps.items():
            races.setdefault(sig, block)
            chk.violation('tsan:' + sig, 'font=%s threads=%d' % (fpath, n), dict(harness='h_thread', flavour='tsan', cmd=res.cmd, report=block))
        if rc not in (0, 66) or (rc == 66 and not reps):
            chk.inconclusive.append('h_thread exit %d on %s N=%d: %s' % (rc, fpath, n, err[-800:]))
    cov['evaluations'] = int(tot.get('segments', 0))
    cov['distinct_nontrivial'] = int(tot.get('segments', 0) - tot.get('mismatches', 0)) // 2
    cov['rule'] = ('one run = (font, N threads, R repetitions with a fresh cold shared face, J jobs = (text, dir, font, encoding)); evaluations = segments shaped concurrently; '
                   'non-trivial is counted conservatively as half of the concurrently produced segments that matched the reference (each job is shaped by >= 2 threads in the rotated-list repetitions)')
    cov['threads_tested'] = [2, 4, 8, 16]
    cov['fonts'] = len(flist)
    cov['runs'] = len(jobs) - control_runs
    cov['repetitions_per_run'] = 3 if quick else 30
    cov['tsan_report_signatures'] = sorted(races)
    cov['callbacks_after_make'] = int(tot.get('callbacks_after_make', 0))
    cov['dump_mismatches'] = int(tot.get('mismatches', 0))
    cov['control_runs_on_lazy_face'] = control_runs
    cov['control_tsan_report_signatures'] = control_reports
    cov['samples'] = cov['samples'][:10]
    chk.assumptions += ['fonts are created with gr_make_font (no advance callbacks)', 'each thread owns its segments and output buffers']
    chk.require(control_reports > 0, 'sensitivity control silent: TSan saw no race on the lazy (gr_face_default) face, so the monitor observed nothing')
    chk.require(tot.get('segments', 0) > 1000, 'too few concurrent segments')
