"""C19 - line breaking and justification never corrupt the glyph stream (DESIGN.md section 5, C19)."""
from .. import fonts, synthwork

META = dict(
    technique='history monitor: remembered slot-pointer sequence of every line re-walked through the public API after every gr_slot_linebreak_before / gr_seg_justify call; ASan+UBSan build; per-case CPU budget for the "every call returns" clause; allocation-balance monitor',
    level='exploration: shipped fonts (LTR, RTL, bidi, collision) and synthesised fonts with 0..4 justification levels, justification passes and line-end contextuals x texts x dir 0..7 x font NULL/20ppm x random cut sets x '
          'per call: line in random order, width in {-1, 0, natural, x0.5, x2, 1e6, random}, flags 0..3, pFirst/pLast NULL or in-line slots, repeated calls; after every call all lines must be the same slots in the same order with prev the exact inverse',
    note='a call that burns the 8 s CPU budget is reported as a hang (deterministic code); fonts with justification passes may legitimately change glyph ids, so the gid clause is judged only when gr_face_info says justifies = 0',
)


def run(chk):
    quick = chk.tier == 'quick'
    cov = chk.coverage
    parts = []
    for fpath, tpath, _ in fonts.shipped():
        parts.append(dict(harness='h_just', flavour='asan', args=['--font', fpath, '--texts', tpath, '--opt', 0], cases=800 if quick else 10000, nshards=2 if quick else 8, nsamples=1))
    lst, paths = synthwork.make_fonts('just', chk.seed, 120 if quick else 1500)
    for p in paths:
        parts.append(dict(harness='h_just', flavour='asan', args=['--font', p, '--opt', 6 if hash(p) % 3 == 0 else 0], cases=250 if quick else 600, nshards=1, nsamples=0))
    chk.run_parts(parts, workers=10)
    t = chk.tot
    cov['evaluations'] = int(t.get('justify_calls', 0))
    cov['distinct_nontrivial'] = int(t.get('nontrivial', 0))
    cov['rule'] = ('one case = a segment (font, text, dir 0..7, font NULL or 20 ppm), a random set of interior cuts and a history of 1..2L+1 justify calls; evaluations = justify calls; '
                   'non-trivial = histories on segments cut into >= 2 lines that completed with all lines intact (distinct by per-case seed)')
    for k in ('segments', 'lines', 'multi_line_segments', 'subrange_calls', 'null_segments'):
        cov[k] = int(t.get(k, 0))
    cov['calls_by_dir'] = t.get('by_dir', {})
    cov['font_kinds'] = t.get('fonts', {})
    cov['shipped_fonts'] = len(fonts.shipped())
    cov['synth_fonts'] = len(paths)
    cov['samples'] = cov['samples'][:12]
    kinds = ' '.join(t.get('fonts', {}).keys())
    chk.require('line_ends=1' in kinds and 'justifies=1' in kinds, 'no font with line-end contextuals / justification was exercised')
    chk.require(t.get('multi_line_segments', 0) > 200, 'too few multi-line segments')
