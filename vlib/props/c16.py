"""C16 - table callbacks follow strict borrow discipline; nothing is leaked (DESIGN.md section 5, C16)."""
from .. import facework

META = dict(
    technique='online checker over the instrumented get_table/release_table event log (exactly-once release, empty outstanding set after a failed make and after destroy, no GET after make on preloadAll faces) + freed-on-release table copies under ASan + allocation-balance monitor at quiescence',
    level='exploration: histories create a face (options 0..7; well-formed, corrupt, missing tables, hostile get_table answers, compressed tables), query labels in three encodings, shape, create fonts / feature values, then destroy everything in random '
          'ownership-respecting order; the MON-TABLE log and the allocation live set are judged at the two quiescent points; a released table is freed so any later dereference is an ASan use-after-free',
    note='release_table = NULL variants are checked for safety only (nothing to conserve); the live-set monitor counts allocations made while a library call is on the stack',
)


def run(chk):
    t = facework.run(chk, 'C16', {'none': (600, 20000), 'hostile': (600, 20000), 'dir': (500, 20000), 'trunc': (400, 20000), 'fuzz': (120, 20000), 'sweep': (600, 30000),
                                  'field': (600, 30000), 'rel': (600, 30000), 'random': (400, 30000)})
    chk.coverage['rule'] = ('one case = one face history (see C01 for the mutation kinds; here well-formed fonts, missing/zero-length/hostile tables and directory damage dominate); '
                            'non-trivial: histories whose face loaded after a mutation or failed to load; distinct by per-case seed / enumeration index')
    chk.require(t.get('table_gets', 0) > 10000, 'too few table events')
    chk.require(t.get('load_failed', 0) > 200 and t.get('load_ok', 0) > 200, 'need both failed and successful loads')
