"""C04 - glyph attachments always form a forest over the segment's own slots (DESIGN.md section 5, C04)."""
from .. import shapework

META = dict(
    technique='invariant walker over the public attachment API (parent chains, child/sibling chains, base chain) on every segment of a hostile attachment workload under ASan+UBSan',
    level='exploration: MON-STRUCT-4 checks every returned segment: parent chains end inside the segment within n steps, every attached slot occurs exactly once in its parent\'s child chain whose members all '
          'name that parent, and the bases form one sibling chain; workload = shipped fonts + synthesised programs attaching in both directions, re-attaching, attaching to descendants, chains of ~100, PUT_COPY of attached slots',
    note='the header\'s documented identity is the oracle, nothing more; reach is bounded by what the generator attaches',
)


def run(chk):
    shapework.run(chk, 'C04', 1600, 150000, synth=True, synth_kinds=('hostile', 'c06'))
    chk.require(chk.tot.get('segs_with_attachments', 0) > 500, 'too few segments with attachments')
