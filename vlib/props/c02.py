"""C02 - shaping any accepted font with any text is safe, terminating and bounded (DESIGN.md section 5, C02)."""
from .. import shapework

META = dict(
    technique='ASan+UBSan builds (both interpreters) + H1 rule-loop counter hook vs the stated bound + slot-growth inequality + allocation-balance monitor + CPU budget, over shipped, hostile synthesised and mutated-but-accepted fonts',
    level='exploration: real gr_make_seg / every query / gr_seg_destroy under ASan+UBSan for shipped fonts and hostile synthesised GDL-lite programs (insert storms, 63-item rules, '
          'maxRuleLoop 1..255, attachment chains and cycles, re-association) x random/hostile/ill-formed texts x 3 encodings x dir 0..7 x features x ppm; bounded work is decided by '
          'the hooked iteration counter against maxRuleLoop x (slots + insert budget + 2), growth by n_slots <= 64 x nChars, leaks by the allocation monitor',
    note='trusts ASan/UBSan (no intra-object or stale-but-mapped detection) and the H1 hook; hostile programs are bounded by what my generator can express and the loader accepts; '
         'mutated-but-accepted fonts are shaped by the C01 harness (cross-observations there) and by the mutated slice here',
)


def run(chk):
    shapework.run(chk, 'C02', 1600, 150000, synth=True, synth_kinds=('hostile', 'c06', 'capedge'), flavours=('asan', 'asan-call'), mutated=True)
    if chk.tier == 'thorough':
        from .. import fuzzwork
        fuzzwork.run_fuzz(chk, 'fz_face', 16 * 800000, seeds_kind=(('hostile', 120), ('capedge', 40)))
    chk.assumptions += ['bound = maxRuleLoop x (slots at pass start + insert budget at pass start + 2), as the property anchor states',
                        'a per-case CPU budget overrun is inconclusive unless it reproduces']
