"""C08 - shaping is a pure function of its arguments (history-independent) (DESIGN.md section 5, C08)."""
from .. import fonts, synthwork

META = dict(
    technique='history monitor + order-swap monitor (two calls differing in one enumerated argument - every feature value, language, direction, size, text - made in both orders on fresh faces must each return the same segment): a long-lived lazy / preloaded face lives through seeded API histories (shape, query, line-break + justify, feature values, labels, fonts, destroys in random order); probe calls and the face self-report are compared textually with a brand-new face; ASan+UBSan build',
    level='exploration: for shipped fonts and synthesised fonts (SET_FEAT, user attributes, pass-skipping bits, justification) every few operations of a history a probe (text, encoding, dir, features, ppm) from a fixed probe set is replayed on the long-lived face '
          'and must dump byte-identically to the reference computed on a fresh face with the same options; single label queries (feature / setting, language, encoding) must answer as they do when they are the first query of a fresh face (fonts with name records under several platform/encoding pairs included); after the history the face must report the same glyph count, features, labels, languages and character support',
    note='same process and build on both sides, so equality is exact; state that only matters across faces is exercised lightly (reference faces are created and destroyed while the long-lived ones exist)',
)


def run(chk):
    quick = chk.tier == 'quick'
    cov = chk.coverage
    parts = []
    for fpath, tpath, _ in fonts.shipped():
        parts.append(dict(harness='h_hist', flavour='asan', args=['--font', fpath, '--texts', tpath, '--ops', 40 if quick else 200, '--probes', 10 if quick else 24],
                          cases=12 if quick else 300, nshards=2 if quick else 8, nsamples=1))
        # order-swap monitor: enumerated single-argument variations (every feature x value, every language, dir, size, text), both orders
        parts.append(dict(harness='h_hist', flavour='asan', args=['--part', 'swap', '--font', fpath, '--texts', tpath, '--probes', 6, '--lprobes', 0],
                          cases=24 if quick else 200, nshards=2 if quick else 8, nsamples=0))
    npaths = 0
    for kind, cnt in (('stateful', 30 if quick else 400), ('just', 16 if quick else 200), ('feat', 24 if quick else 200)):
        lst, paths = synthwork.make_fonts(kind, chk.seed, cnt)
        paths = [p_ for p_ in paths if '_jx' not in p_]          # justification attributes at the edges of their range: C19's known finding KF-C19-3
        npaths += len(paths)
        for p in paths:
            parts.append(dict(harness='h_hist', flavour='asan', args=['--font', p, '--ops', 40 if quick else 200, '--probes', 10], cases=12 if quick else 60, nshards=1, nsamples=0))
            parts.append(dict(harness='h_hist', flavour='asan', args=['--part', 'swap', '--font', p, '--probes', 6, '--lprobes', 0], cases=16 if quick else 200, nshards=1, nsamples=0))
    chk.run_parts(parts, workers=10)
    t = chk.tot
    cov['evaluations'] = int(t.get('probes_compared', 0))
    cov['distinct_nontrivial'] = int(t.get('nontrivial', 0))
    cov['rule'] = ('one case = one history of N operations on a fresh long-lived face (options default or preloadAll chosen per history) with a probe every 5 operations; evaluations = probes compared; '
                   'non-trivial = compared probes of >= 2 characters that returned a segment; distinct by (history seed, position)')
    for k in ('fonts_not_loaded', 'histories', 'ops', 'op_shape', 'op_justify', 'op_destroy', 'op_query', 'op_featureval', 'op_font', 'op_shape_near_miss_of_probe', 'swap_pairs', 'swap_pairs_where_the_variation_matters', 'label_swap_pairs', 'label_swap_pairs_with_different_answers', 'max_swap_variations_of_a_font', 'reports_compared', 'label_probes_compared', 'font_probes_compared_hinted', 'font_probes_compared_plain', 'rules_fired', 'histories_with_rules'):
        cov[k] = int(t.get(k, 0))
    cov['shipped_fonts'] = len(fonts.shipped())
    cov['synth_fonts'] = npaths
    cov['samples'] = cov['samples'][:12]
    chk.require(t.get('probes_compared', 0) > 1000, 'too few probes')
    chk.require(t.get('font_probes_compared_hinted', 0) > 200, 'too few probes through a long-lived hinted font')
