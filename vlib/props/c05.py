"""C05 - characters and slots stay validly associated (DESIGN.md section 5, C05)."""
from .. import shapework

META = dict(
    technique='invariant walker over char-info / slot association API + independent decoding of the input, on every segment of a hostile insert/delete/ASSOC workload under ASan+UBSan',
    level='exploration: for every returned segment n_cinfo = characters passed, each char-info holds the decoded scalar and its code-unit offset (strictly increasing), every slot before/after/original lies in [0,n), '
          'every character lies in some slot range and every char-info before/after is a slot index; workload = shipped fonts + synthesised programs with ASSOC to arbitrary in-rule offsets, inserts and deletions at both edges',
    note='for ill-formed input the library\'s own segmentation is taken as given (count <= code units, bases increasing); known finding KF-C05-1 covers fonts that re-associate slots inside positioning passes',
)


def run(chk):
    shapework.run(chk, 'C05', 1600, 150000, synth=True, synth_kinds=('hostile', 'c06'))
    chk.require(chk.tot.get('segs_length_changed', 0) > 500, 'too few segments whose length changed')
