"""C17 - collision fixing respects limits and its 'resolved' verdict is true (DESIGN.md section 5, C17)."""
import os

from .. import build, fonts

META = dict(
    technique='hooked-state monitor (H3): every fixing step of real shaping reports the neighbours at the positions they were merged, the shift before/after, limit, offset, margin and verdict; an independent geometric oracle (octaboxes as clipped convex polygons) judges the limit and resolved clauses; a component monitor drives ShiftCollider directly with seeded arrangements; an invariant monitor walks the interval set after every operation; ASan+UBSan build',
    level='exploration: (a) the three Awami fonts x test lines, permutations of lines and random Arabic-script strings x dir {1,0,3,5,7} x font NULL/24ppm; (b) arrangements of a target + 1..6 neighbours from octabox-bearing glyphs with seeded origins (+-2 x bbox), limits (RTL any, LTR x-symmetric, 5 % flat), margins 0..200, offsets inside the limit, shifts; '
          '(c) random initialise / exclude / exclude_with_margins / weighted sequences on grid and float coordinates with sortedness, disjointness, bounds and never-offer-excluded checks after every operation',
    note='overlap = intersection polygon area > 1 unit^2 AND all four projection overlaps > 0.5 unit (never more than the code\'s own exclusion claims); a sub-box is judged only where the neighbour\'s main octabox also overlaps (the fixer refines main-octabox collisions by sub-boxes; a sub-box sticking out of the main box is invisible to it by construction); sequence-ordered pairs are recorded, not judged; '
         'known findings: zero-length search ranges (degenerate limit / start on a limit edge), LTR with x offset, start outside the limit',
)


def run(chk):
    quick = chk.tier == 'quick'
    cov = chk.coverage
    awami = [f for f in fonts.shipped() if 'Awami' in f[0]]
    parts = [dict(harness='h_coll', flavour='asan', args=['--part', 'zones'], cases=(200000 if quick else 6000000) // 16, nshards=16, nsamples=1)]
    for fpath, tpath, _ in awami:
        parts.append(dict(harness='h_coll', flavour='asan', args=['--part', 'pipeline', '--font', fpath, '--texts', tpath], cases=(6400 if quick else 320000) // 16, nshards=16, nsamples=2))
        parts.append(dict(harness='h_coll', flavour='asan', args=['--part', 'component', '--font', fpath], cases=(64000 if quick else 3200000) // 16, nshards=16, nsamples=1))
    # recorded witness of known finding KF-C17-5, replayed as it stands
    parts.append(dict(harness='h_coll', flavour='asan', args=['--part', 'pipeline', '--font', fonts.font('AwamiNastaliq-Regular.ttf'), '--texts', os.path.join(build.VERIF, 'witness', 'KF-C17-5.txt'), '--fixdir', 1],
                      cases=4, nshards=1, nsamples=0))
    chk.run_parts(parts, workers=2)
    t = chk.tot
    cov['evaluations'] = int(t.get('steps', 0) + t.get('zone_ops', 0))
    cov['distinct_nontrivial'] = int(t.get('steps_that_moved', 0) + t.get('offers', 0))
    cov['rule'] = ('(a,b) one evaluation = one fixing step (pipeline steps observed through the hooks; component arrangements drawn from a per-case seed); non-trivial = steps whose shift changed. '
                   '(c) one evaluation = one interval-set operation followed by a full walk and a closest() query; non-trivial = queries that returned an offer. Distinct by per-case seed / step.')
    for k in ('steps', 'steps_with_shift_computed', 'steps_that_moved', 'resolved_steps', 'unresolved_steps', 'limit_judged', 'pairs_judged', 'neighbours_not_within_reach', 'segments', 'arrangements',
              'out_of_domain_ltr_asymmetric', 'limit_not_wellformed', 'started_outside_limit_recorded', 'subbox_overlaps_outside_main_octabox_recorded', 'overlaps_of_sequence_ordered_pairs_recorded',
              'zone_sequences', 'zone_ops', 'intervals_walked', 'offers', 'no_offer'):
        cov[k] = int(t.get(k, 0))
    cov['largest_residual_intersection_unit2_incl_known_classes'] = round(t.get('max_residual_intersection_area_x1e6', 0) / 1e6, 3)
    cov['pipeline_segments_by_dir'] = t.get('by_dir', {})
    cov['fonts'] = len(awami)
    cov['samples'] = cov['samples'][:10]
    chk.require(t.get('resolved_steps', 0) > 20000 and t.get('pairs_judged', 0) > 100000, 'too few collision steps observed')
    chk.require(t.get('offers', 0) > 10000, 'too few interval-set offers observed')
