"""C20 - tag/string conversions honour their documented buffer contracts (DESIGN.md section 5, C20)."""
from .. import build, fonts
from .. import run as R

HARNESS = 'h_tag'
META = dict(
    technique='ASan/UBSan build + exact-size heap buffers + reference tag function (exhaustive for length <= 2) + differential padding monitor',
    level='exploration: the real gr_str_to_tag/gr_tag_to_str run under ASan+UBSan on every C string of length 0..2 (exhaustive) and seeded '
          'longer strings / 32-bit tags, compared with a three-line reference; space- vs zero-padded tags compared at every tag-taking entry point on all shipped fonts',
    note='trusts ASan red zones for the over-read/over-write clause and the harness reference (big-endian, unsigned bytes, zero padded); strings of length 3..8 and tags are sampled, not enumerated',
)


def run(chk):
    quick = chk.tier == 'quick'
    exe = build.harness(HARNESS, 'asan')
    nsh = 16
    cov = chk.coverage
    tot = {}

    def part(args, cases_per_shard, nshards=nsh):
        res, _ = R.run_shards(exe, args, nshards, cases_per_shard, chk.seed)
        chk.add_results(res, HARNESS, 'asan')
        s = R.merge_stats(res)
        R._merge(tot, s)
        for r in res:
            cov['samples'].extend(r.samples[:2])
        return s

    exhaustive = 1 + 255 + 255 * 255
    nstr = exhaustive + (20000 if quick else 2000000)
    part(['--part', 'str'], (nstr + nsh - 1) // nsh)
    part(['--part', 'tag'], (1000000 if quick else 40000000) // nsh)
    flist = fonts.shipped()
    per_font = 150 if quick else 3000
    for fpath, _, _ in flist:
        part(['--part', 'pad', '--font', fpath], per_font, nshards=1 if quick else 4)
    # synthesised Feat / Sill tables with 1..4-letter language tags and short feature-id tags (no shipped font has a one-letter tag)
    from .. import synthwork
    lst, spaths = synthwork.make_fonts('feat', chk.seed, 40 if quick else 600)
    chk.run_parts([dict(harness=HARNESS, flavour='asan', args=['--part', 'pad', '--font', p], cases=80 if quick else 400, nshards=1, nsamples=0) for p in spaths], workers=16)
    R._merge(tot, {k: v for k, v in chk.tot.items() if k.startswith('pad_')})
    cov['synth_fonts'] = len(spaths)
    cov['evaluations'] = int(tot.get('str_calls', 0) + tot.get('tag_calls', 0) + tot.get('pad_pairs', 0))
    # distinct non-trivial: every string / tag / (font, tag pair) is distinct by construction of the enumeration;
    # non-trivial = strings of length >= 1, all tags, and padding pairs that select an existing feature or language
    cov['distinct_nontrivial'] = int(exhaustive - 1 + tot.get('pad_feature_hits', 0) + tot.get('pad_lang_hits', 0))
    cov['rule'] = ('str: all C strings of length 0..2 over bytes 1..255 (exhaustive, %d) + seeded boundary/random strings of length 3..8, '
                   'each in a heap buffer of exactly len+1 bytes; tag: boundary + seeded random + strided 32-bit tags into an exactly 4-byte '
                   'heap buffer; pad: for every language tag / feature id of every shipped font and random tags, the zero-padded and the '
                   'space-padded form (1..4 pad bytes) at find_fref, featureval_for_lang, face_info, is_char_supported, make_seg. '
                   'Non-trivial: non-empty strings of the exhaustive part plus padding pairs that hit an existing feature or language.' % exhaustive)
    cov['exhaustive_subspace'] = 'C strings of length 0..2 (gr_str_to_tag)'
    cov['str_calls'] = int(tot.get('str_calls', 0))
    cov['str_by_len'] = tot.get('len', {})
    cov['tag_calls'] = int(tot.get('tag_calls', 0))
    cov['roundtrips'] = int(tot.get('roundtrips', 0))
    cov['pad_pairs'] = int(tot.get('pad_pairs', 0))
    cov['pad_pairs_on_font_tags'] = int(tot.get('pad_pairs_font_tags', 0))
    cov['pad_feature_hits'] = int(tot.get('pad_feature_hits', 0))
    cov['pad_lang_hits'] = int(tot.get('pad_lang_hits', 0))
    cov['fonts'] = len(flist)
    cov['samples'] = cov['samples'][:12]
    chk.assumptions += ['ASan red zones detect the over-read / over-write (exact-size heap buffers)',
                        'tag bytes are interpreted as unsigned chars, as the header documents a big-endian tag',
                        'padding clause: the tag content does not itself end in a space or NUL']
    chk.require(tot.get('pad_feature_hits', 0) > 0 and tot.get('pad_lang_hits', 0) > 0, 'padding clause never hit an existing feature/language')
    chk.require(tot.get('str_calls', 0) >= exhaustive, 'exhaustive string part incomplete (%d of %d)' % (tot.get('str_calls', 0), exhaustive))
