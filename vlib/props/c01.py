"""C01 - font loading is total and memory-safe on arbitrary table bytes (DESIGN.md section 5, C01)."""
from .. import facework

META = dict(
    technique='ASan+UBSan build + instrumented gr_face_ops with exact-size table copies + allocation-balance monitor + CPU budget, driven by historical crashers, structure-derived boundary/field sweeps, random mutations, truncations, directory damage and hostile callback answers; H4 hook reports which parser checks were tripped',
    level='exploration: gr_make_face_with_ops / gr_make_file_face (options 0..7) on mutated shipped and synthesised fonts (Silf v2..v5, Glat v1..v3, Gloc short/long, Feat v1/v2, compressed tables); every face that comes back gets the full query sweep, '
          'label queries, shapings and destroy; sanitizer reports, CPU-budget overruns, allocations surviving destroy or a failed load are violations; evidence lists the load-failure codes observed',
    note='"arbitrary bytes" is sampled: a removed check whose boundary no generated font reaches is missed; ASan cannot see intra-object overflows or stale-but-mapped reads; OOM paths are not injected',
)


def run(chk):
    t = facework.run(chk, 'C01', {'fuzz': (300, 100000), 'sweep': (2400, 80000), 'field': (2400, 80000), 'rel': (2400, 80000), 'tail': (768, 13312), 'cut': (1200, 4000), 'random': (1200, 60000), 'trunc': (300, 8000),
                                  'dir': (300, 8000), 'hostile': (200, 4000)})
    if chk.tier == 'thorough':
        from .. import fuzzwork
        fuzzwork.run_fuzz(chk, 'fz_face', 16 * 1500000, seeds_kind=(('c06', 60), ('hostile', 40), ('just', 30), ('feat', 20), ('cmap', 20)))
    chk.coverage['rule'] = ('one case = (base font, mutation, options 0..7, callbacks or file, release_table present or NULL); mutations: historical single-byte crashers (tests/fuzz-tests/**.fuzz), boundary values at structure-derived '
                            'offsets (sfnt directory, table headers, Silf subtable / pass headers / class map / lookup-class headers / code offset arrays), 16/32-bit field edits singly and in adjacent pairs, every byte value at the last bytes of every parsed table, systematic truncations (every parsed table at its first 96 / last 48 bytes; the last Silf pass at every byte with its end offset patched), seeded random bytes biased to the first 2 KB of '
                            'each table, truncations/extensions, directory damage, hostile get_table answers. Non-trivial: the mutated font still loaded (and was queried and shaped) or the load failed; distinct by per-case seed / enumeration index.')
    chk.require(chk.coverage['distinct_load_failure_codes'] >= 12, 'too few distinct load-failure codes tripped: %d' % chk.coverage['distinct_load_failure_codes'])
    chk.require(t.get('mutated_font_loaded', 0) > 500, 'too few mutated fonts got past the loader')
