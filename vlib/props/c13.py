"""C13 - characters map to the glyphs the cmap assigns, by either lookup path (DESIGN.md section 5, C13)."""
import os

from .. import build, fonts, synthwork

META = dict(
    technique='reference-model monitor: independent cmap reader (OpenType format 4 / 12 rules, subtable preference order) compared with the engine\'s direct and cached lookups on ALL 0x110000 code points per font; independent pseudo-map parse for gr_face_is_char_supported; one-character shapings for the initial glyph; ASan+UBSan build',
    level='exploration, exhaustive per font over the code-point space: every shipped font and seeded synthesised cmaps (1..2000 segments, 256-block boundaries, idRangeOffset arrays with holes, wrapping deltas, U+FFFF/U+10FFFF mapped, format 12 groups at plane boundaries, '
          'adjacent groups, BMP code points inside format 12 consistent or not with format 4, pseudo glyphs) x {default face, gr_face_cacheCmap face}',
    note='the reference reads the table bytes the font contains (not the generator\'s intent); malformed (overlapping / unsorted) subtables are outside the statement; the first-slot clause is judged on fonts without substitution passes and for glyph ids that have outlines',
)


def run(chk):
    quick = chk.tier == 'quick'
    cov = chk.coverage
    os.makedirs(os.path.join(build.WORK, 'tmp'), exist_ok=True)
    shipped = os.path.join(build.WORK, 'tmp', 'shipped-fonts.txt')
    with open(shipped, 'w') as f:
        f.write('\n'.join(p for p, _, _ in fonts.shipped()) + '\n')
    lst, paths = synthwork.make_fonts('cmap', chk.seed, 48 if quick else 800)
    chk.run_parts([dict(harness='h_cmap', flavour='asan', args=['--fontlist', shipped], cases=len(fonts.shipped()), nshards=16, nsamples=3),
                   dict(harness='h_cmap', flavour='asan', args=['--fontlist', lst, '--nosubst', 1], cases=len(paths), nshards=16, nsamples=4)], workers=2)
    t = chk.tot
    cov['evaluations'] = int(t.get('lookups', 0))
    cov['distinct_nontrivial'] = int(t.get('mapped_code_points', 0))
    cov['rule'] = ('per font: every code point 0..0x10FFFF looked up directly and through the cache (evaluations = lookups), plus is_char_supported on both faces; '
                   'non-trivial = code points the reference maps to a glyph (distinct (font, code point) pairs)')
    cov['exhaustive'] = False
    cov['exhaustive_subspace'] = 'all 0x110000 code points for each of the %d fonts' % int(t.get('fonts', 0))
    for k in ('fonts', 'fonts_with_format12', 'fonts_not_loaded', 'fonts_without_reference', 'pseudo_entries', 'one_char_segments', 'pseudo_clause_skipped_compressed_silf'):
        cov[k] = int(t.get(k, 0))
    cov['samples'] = cov['samples'][:10]
    chk.require(t.get('fonts', 0) >= len(fonts.shipped()) + len(paths) - 2, 'some fonts did not load')
    chk.require(t.get('fonts_with_format12', 0) >= 5, 'too few format 12 fonts')
