"""C11 - UTF-8/16/32 text is decoded exactly and never read past its end (DESIGN.md section 5, C11)."""
from .. import fonts

HARNESS = 'h_utf'
META = dict(
    technique='ASan/UBSan build + exact-size heap buffers + independent strict Unicode decoder as oracle (exhaustive over all UTF-8 strings of <= 3 bytes) + differential shaping across encodings',
    level='exploration: gr_count_unicode_characters runs under ASan+UBSan on every byte string of length 0..3 (16 843 009 buffers, exhaustive) and on '
          'boundary-structured longer UTF-8/16/32 strings, judged by an independent strict decoder (Unicode table 3-7); shaping in the three encodings is compared textually '
          'and ill-formed sequences must shape exactly like U+FFFD with the following characters intact',
    note='trusts the harness decoder and ASan red zones; strings longer than 3 bytes/2 units are sampled; the tail-truncation exclusion is structural (any lead-pattern byte >= 0xC0 with too few continuation bytes at the buffer end); the ill-formed shaping clause passes a NUL-terminated buffer with nChars = code-unit count (C12 contract)',
)


def run(chk):
    quick = chk.tier == 'quick'
    cov = chk.coverage
    nsh = 16
    chk.run_part(HARNESS, 'asan', ['--part', 'count8x'], (65537 + nsh - 1) // nsh, nsh)
    chk.run_part(HARNESS, 'asan', ['--part', 'count8s'], (200000 if quick else 20000000) // nsh, nsh)
    chk.run_part(HARNESS, 'asan', ['--part', 'count16'], (100000 if quick else 5000000) // nsh, nsh)
    chk.run_part(HARNESS, 'asan', ['--part', 'count32'], (50000 if quick else 2000000) // nsh, nsh)
    flist = [f for f in fonts.shipped() if any(n in f[0] for n in ('Padauk', 'charis_r_gr', 'Scheherazadegr.ttf', 'Awami_test', 'general', 'Annapurna'))]
    if not quick:
        flist = fonts.shipped()
    per = 400 if quick else 20000
    for fpath, _, _ in flist:
        chk.run_part(HARNESS, 'asan', ['--part', 'shape', '--font', fpath], per // 4, 4, nsamples=1)
    t = chk.tot
    exhaustive = 1 + 256 + 65536 + 16777216
    cov['evaluations'] = int(t.get('count_calls', 0) + t.get('equiv_segs', 0) + t.get('illformed_segs', 0))
    # every enumerated / seeded string is distinct by construction; non-trivial = strings holding at least one multi-unit or ill-formed sequence
    cov['distinct_nontrivial'] = int(t.get('illformed', 0) + t.get('equiv_nontrivial', 0) + t.get('illformed_segs', 0))
    cov['rule'] = ('count: all byte strings of length 0..3 as UTF-8 (exhaustive), seeded boundary-structured UTF-8 strings of 4..8 bytes, all 1- and 2-unit UTF-16 strings over a 40-value '
                   'boundary alphabet + random 3..8 units, UTF-32 boundary pairs + random; each in an exact-size heap buffer with its end pointer. shape: random/hostile scalar '
                   'sequences over each font repertoire in the three encodings, and the same with one ill-formed sequence planted. Non-trivial: buffers whose text before the NUL is '
                   'ill-formed, encoding triples of >= 2 characters that shape, and planted ill-formed shapings.')
    cov['exhaustive'] = False
    cov['exhaustive_subspace'] = 'all byte strings of length 0..3 as UTF-8: %d buffers' % exhaustive
    for k in ('count_calls', 'wellformed', 'illformed', 'tail_truncated_excluded', 'equiv_segs', 'illformed_segs', 'null_segments'):
        cov[k] = int(t.get(k, 0))
    cov['illformed_by_enc'] = t.get('illformed_by_enc', {})
    cov['fonts'] = len(flist)
    cov['samples'] = cov['samples'][:14]
    chk.assumptions += ['well-formedness is the Unicode definition (table 3-7; surrogate code points are ill-formed in UTF-8 and UTF-32)',
                        'ASan red zones detect reads outside [buffer_begin, buffer_end)']
    chk.require(t.get('count_calls', 0) >= exhaustive, 'exhaustive part incomplete: %d of %d' % (t.get('count_calls', 0), exhaustive))
    chk.require(t.get('illformed_segs', 0) > 100, 'too few ill-formed shapings observed')
