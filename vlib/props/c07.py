"""C07 - the stack machine follows the opcode spec; both interpreter builds agree (DESIGN.md section 5, C07)."""
from .. import build, fonts, synthwork
from .. import run as R

META = dict(
    technique='(a) reference-model monitor: generated straight-line programs run through Machine::Code in two ASan+UBSan builds (direct-threaded, call-threaded) vs a 32-bit two\'s-complement evaluator written from doc/OpCodes.adoc, incl. the full boundary operand matrix per binary opcode; (b) differential monitor: canonical segment dumps of the two builds compared line by line (also hooks-on vs hooks-off)',
    level='exploration: type-correct programs of 1..200 instructions (stack depth up to 1000) over every opcode in 0x00-0x18, 0x30-0x32, 0x3E-0x41 with boundary/random operands; status class and value must equal the specification (signed comparisons, 0/1 logic, signed min/max, truncating division that dies on /0 and INT_MIN/-1, trunc zero-extension, setbits); '
          'shipped, C06-style and hostile synthesised fonts x texts shaped by both interpreter builds must dump identically',
    note='slot-touching opcodes are compared between the two interpreters (and through C06), not against the spec text; the evaluator is my reading of the opcode document',
)


def run(chk):
    quick = chk.tier == 'quick'
    cov = chk.coverage
    for fl in ('asan', 'asan-call'):
        chk.run_part('h_vm', fl, ['--font', fonts.font('small.ttf')], (320000 if quick else 16000000) // 16, 16, nsamples=2)
    t = dict(chk.tot)
    # (b) interpreter equivalence on shaping (and hooks-off build as a third witness that the hooks are inert)
    targets = [(f, tx) for f, tx, _ in fonts.shipped()]
    for kind, cnt in (('c06', 16 if quick else 300), ('hostile', 16 if quick else 300), ('just', 6 if quick else 100)):
        lst, paths = synthwork.make_fonts(kind, chk.seed, max(cnt, 40 if quick else cnt))
        targets += [(p, '') for p in paths[:cnt]]
    flavours = ['asan', 'asan-call', 'plain']
    exes = {fl: build.harness('h_diff', fl) for fl in flavours}
    ncases = 120 if quick else 3000
    from concurrent.futures import ThreadPoolExecutor

    def one(job):
        (fpath, tpath), fl = job
        args = ['--part', 'hashes', '--font', fpath]
        if tpath:
            args += ['--texts', tpath]
        res, _ = R.run_shards(exes[fl], args, 1, ncases, chk.seed)
        return job, res

    jobs = [(tg, fl) for tg in targets for fl in flavours]
    with ThreadPoolExecutor(16) as ex:
        results = list(ex.map(one, jobs))
    lines = {}
    segs = 0
    nontriv = 0
    for ((fpath, tpath), fl), res in results:
        chk.add_results(res, 'h_diff', fl)
        lines[(fpath, fl)] = [d for r in res for d in r.diag if d.startswith('H ')]
        if fl == 'asan':
            for r in res:
                for s in r.stats:
                    segs += int(s.get('segments', 0))
                    nontriv += int(s.get('nontrivial', 0))
    compared = 0
    for fpath, tpath in targets:
        ref = lines.get((fpath, 'asan'), [])
        for fl in ('asan-call', 'plain'):
            other = lines.get((fpath, fl), [])
            if len(other) != len(ref):
                chk.inconclusive.append('different number of dump lines for %s (%s: %d vs %d)' % (fpath, fl, len(other), len(ref)))
                continue
            for a, b in zip(ref, other):
                compared += 1
                if a != b:
                    key = 'interpreters-differ' if fl == 'asan-call' else 'hooks-change-results'
                    chk.violation(key, '%s: direct/hooked build [%s] vs %s build [%s]' % (fpath, a, fl, b),
                                  dict(harness='h_diff', flavour=fl, args=['--seed', str(chk.seed), '--shard', '0', '--nshards', '1', '--cases', str(ncases), '--part', 'hashes', '--font', fpath], case=int(a.split()[2])))
                    break
    cov['evaluations'] = int(t.get('programs', 0)) + compared
    cov['distinct_nontrivial'] = int(t.get('agree', 0)) // 2 + nontriv
    cov['rule'] = ('(a) one case = one generated program (the first 5184 = 16 binary opcodes x 18 x 18 boundary operands; then seeded random programs), run in both interpreter builds; non-trivial = programs on which machine and specification agree, counted once per program. '
                   '(b) one case = (font, text, encoding, dir, features, ppm) dumped by the direct-threaded, the call-threaded and the hooks-off build; non-trivial = cases of >= 2 characters that returned a segment.')
    cov['programs_per_interpreter'] = int(t.get('programs', 0)) // 2
    cov['matrix_programs_per_interpreter'] = int(t.get('matrix_programs', 0)) // 2
    cov['program_outcomes'] = t.get('outcomes', {})
    cov['opcodes_executed'] = t.get('opcodes_executed', {})
    cov['dump_lines_compared'] = compared
    cov['shaping_cases'] = segs
    cov['fonts_for_interpreter_equivalence'] = len(targets)
    cov['samples'] = cov['samples'][:8]
    chk.require(len(t.get('opcodes_executed', {})) >= 24, 'not every opcode of the subset was executed')
    chk.require(compared > 1000, 'too few dumps compared between the interpreter builds')
