"""C12 - gr_make_seg consumes no more text than its contract allows (DESIGN.md section 5, C12)."""
from .. import fonts

HARNESS = 'h_utf'
META = dict(
    technique='ASan build + NUL-terminated exact-size heap buffers with over-estimated nChars + char-info count/identity oracle + differential against the exact-length call',
    level='exploration: gr_make_seg runs under ASan+UBSan on NUL-terminated texts (three encodings, multi-unit last characters) whose buffer ends at the terminator while nChars '
          'over-estimates by 0..65536 or equals the code-unit count; the segment must have one char-info per character before the NUL and equal the exact-length segment',
    note='trusts ASan red zones for the read-beyond-terminator clause; over-estimates above 65536 are not tried (allocation size question, not this property)',
)


def run(chk):
    quick = chk.tier == 'quick'
    cov = chk.coverage
    flist = [f for f in fonts.shipped() if any(n in f[0] for n in ('Padauk', 'charis_r_gr', 'Scheherazadegr.ttf', 'Awami_test', 'general', 'PigLatin'))]
    if not quick:
        flist = fonts.shipped()
    per = 1600 if quick else 40000
    for fpath, _, _ in flist:
        chk.run_part(HARNESS, 'asan', ['--part', 'nul', '--font', fpath], per // 8, 8, nsamples=1)
    t = chk.tot
    cov['evaluations'] = int(t.get('nul_segs', 0) + t.get('nul_illformed_tail_segs', 0))
    cov['segments_with_an_illformed_tail_before_the_nul'] = int(t.get('nul_illformed_tail_segs', 0))
    cov['distinct_nontrivial'] = int(t.get('nul_overestimates', 0))
    cov['rule'] = ('seeded random/hostile texts (length 0..41, astral or U+FFFD last) x 3 encodings x dir 0/1 x nChars - len in {0,1,2,7,64,4096,65536, code-unit count}; '
                   'buffer allocated exactly to the NUL. Non-trivial: calls whose nChars exceeds the true length (distinct by seed).')
    cov['null_segments'] = int(t.get('null_segments', 0))
    cov['fonts'] = len(flist)
    cov['samples'] = cov['samples'][:10]
    chk.assumptions += ['ASan red zones detect a read beyond the terminator', 'NUL-terminated means a NUL code unit of the encoding']
    chk.require(t.get('nul_overestimates', 0) > 100, 'too few over-estimated calls')
