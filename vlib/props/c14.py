"""C14 - compressed tables are transparent; the LZ4 decoder is exact and bounded (DESIGN.md section 5, C14)."""
import os

from .. import build, lzwork

META = dict(
    technique='(a) differential monitor: a font with plaintext Silf/Glat vs the same font with those tables stored through a family of independent LZ4 encoders (self-report and segment dumps equal); (b) reference-model monitor: lz4::decompress on exact-size heap buffers under ASan vs a lenient reference block decoder (prefix consistency for every return value, exactness when the announced size is returned); (c) fonts with lying compressed-table headers must not load',
    level='exploration: plaintext twins of the shipped compressed Awami fonts and synthesised Silf v5 / Glat v3 fonts are re-encoded (greedy, random match choice and length, forced overlapping matches; Silf, Glat, both) and compared on texts x dir x features x ppm; '
          'the decoder sees valid encodings, byte mutations, truncations, appended bytes, token/offset damage and random blocks with announced sizes exact, +-1, x2',
    note='the encoders and the reference decoder are my code (every encoding is round-tripped through the reference before use); encodings that do not shrink the data or are shorter than 13 bytes are refused by contract and checked to be refused; known finding KF-C14-1 (lenient tail) is keyed separately',
)


def run(chk):
    quick = chk.tier == 'quick'
    cov = chk.coverage
    info = lzwork.make(chk.seed, quick)
    parts = [dict(harness='h_lz4', flavour='asan', args=['--part', 'decode'], cases=(200000 if quick else 8000000) // 16, nshards=16, nsamples=3)]
    mf = os.path.join(build.WORK, 'lz', 'mustfail-%d.txt' % chk.seed)
    with open(mf, 'w') as f:
        f.write('\n'.join(info['mustfail']) + '\n')
    parts.append(dict(harness='h_lz4', flavour='asan', args=['--part', 'mustfail', '--fontlist', mf], cases=1, nshards=1, nsamples=0))
    for plain, variant, txt in info['pairs']:
        big = os.path.getsize(plain) > 200000
        args = ['--part', 'pair', '--font', plain, '--font2', variant, '--opt', 6 if hash(variant) % 3 == 0 else 0]
        if txt:
            args += ['--texts', txt]
        parts.append(dict(harness='h_diff', flavour='asan', args=args, cases=(150 if big else 60) if quick else (3000 if big else 400), nshards=1 if quick else 4, nsamples=1 if big else 0))
    chk.run_parts(parts, workers=12 if quick else 4)
    if not quick:
        from .. import fuzzwork
        fuzzwork.run_fuzz(chk, 'fz_lz4', 16 * 3000000, max_len=4096)
    t = chk.tot
    cov['evaluations'] = int(t.get('decodes', 0) + t.get('segments', 0))
    cov['distinct_nontrivial'] = int(t.get('prefix_consistent', 0) + t.get('nontrivial', 0))
    cov['rule'] = ('(b) one case = (plaintext class and size 13..70000, encoder mode, mutation, announced size); non-trivial = cases whose return value was >= 0 and prefix-consistent. '
                   '(a) one case = (plaintext font, re-encoded font, text, dir, features, ppm); non-trivial = pairs of returned segments for >= 2 characters. Distinct by per-case seed.')
    for k in ('decodes', 'rejected', 'prefix_consistent', 'accepted_exact', 'accepted_valid', 'returned_other_size_face_would_fail', 'rejected_nonshrinking_as_expected', 'mustfail_loads'):
        cov[k] = int(t.get(k, 0))
    cov['decoder_cases_by_mutation'] = t.get('by_mutation', {})
    cov['font_pairs'] = len(info['pairs'])
    cov['base_fonts'] = info['bases']
    cov['reencoded_variants'] = info['variants']
    cov['variants_not_shrinking_expected_refused'] = info['nonshrinking_variants']
    cov['lying_header_fonts'] = len(info['mustfail'])
    cov['pair_segments'] = int(t.get('segments', 0))
    cov['pair_fonts_loaded'] = int(t.get('fonts_loaded', 0))
    cov['samples'] = cov['samples'][:12]
    chk.require(t.get('accepted_valid', 0) > 1000, 'too few valid encodings accepted by the decoder')
    chk.require(t.get('fonts_loaded', 0) >= 2 * len(info['pairs']) - 4, 'compressed variants failed to load: %d of %d fonts loaded' % (t.get('fonts_loaded', 0), 2 * len(info['pairs'])))
