"""C15 - positions are design-unit results scaled linearly by the font size (DESIGN.md section 5, C15)."""
import os

from .. import build, fonts, synthwork

META = dict(
    technique='metamorphic monitor: font = NULL vs unhinted gr_font of P ppm for the same arguments; structural dumps equal, every origin/advance compared with s x design value under a derived float32 rounding tolerance; ASan+UBSan build',
    level='exploration: for shipped fonts (incl. collision and RTL fonts) and synthesised fonts with shifts/attachments, seeded (text, dir, features, ppm in {0.5..4096} and log-uniform [1e-3,4096]) pairs must have identical '
          'glyphs/attachments/associations and positions equal to (P/upem) x design-unit value within tol = 2 k eps s max(M, upem), k = 2 n_slots + 4; evidence prints the worst observed error/tolerance ratio; a third of the pairs are then cut at a cluster boundary and every line justified to the same width in both runs (gr_seg_justify with font NULL / the sized font) and compared again with a coarse tolerance (2 design units per slot: justify() truncates shares to whole steps)',
    note='tolerance is magnitude-relative (collision/kerning arithmetic cancels large coordinates); a missing or doubled scale factor gives errors >= 1000 x tol except at ppm = upem; hinted fonts are excluded by the statement; the H5 hook records every comparison Slot::finalise decides on scaled positions in both runs, so a divergence caused by such a decision flipping on operands within rounding (known finding KF-C15-2) is keyed apart from any other divergence',
)


def run(chk):
    quick = chk.tier == 'quick'
    cov = chk.coverage
    parts = []
    for fpath, tpath, _ in fonts.shipped():
        parts.append(dict(harness='h_diff', flavour='asan', args=['--part', 'scale', '--font', fpath, '--texts', tpath], cases=1500 if quick else 20000, nshards=2 if quick else 8, nsamples=1))
    lst, paths = synthwork.make_fonts('c06', chk.seed, 40 if quick else 600)
    lst2, paths2 = synthwork.make_fonts('just', chk.seed, 24 if quick else 300)       # justification levels, steps, weights, line-end contextuals
    paths = paths + [p_ for p_ in paths2 if '_jx' not in p_]          # (fonts with justification attributes at the edges of their range: C19's known findings)
    for p in paths:
        parts.append(dict(harness='h_diff', flavour='asan', args=['--part', 'scale', '--font', p], cases=150 if quick else 600, nshards=1, nsamples=0))
    # recorded witnesses of the open known findings, replayed as they stand (fixed text, direction, size)
    wdir = os.path.join(build.VERIF, 'witness')
    parts.append(dict(harness='h_diff', flavour='asan', args=['--part', 'scale', '--font', fonts.font('AwamiNastaliq-Regular.ttf'), '--texts', os.path.join(wdir, 'KF-C15-1.txt'), '--fixdir', 6, '--fixppm', 12], cases=1, nshards=1, nsamples=0))
    parts.append(dict(harness='h_diff', flavour='asan', args=['--part', 'scale', '--font', os.path.join(wdir, 'KF-C15-2-c0023.ttf'), '--texts', os.path.join(wdir, 'KF-C15-2.txt'), '--fixdir', 3, '--fixppm', 12], cases=1, nshards=1, nsamples=0))
    chk.run_parts(parts, workers=10)
    t = chk.tot
    cov['evaluations'] = int(t.get('pairs', 0))
    cov['distinct_nontrivial'] = int(t.get('nontrivial', 0))
    cov['rule'] = ('one case = (font, text, encoding, dir, features, ppm) shaped with font=NULL and with gr_make_font(ppm); non-trivial: >= 2 slots, |s-1| > 1e-3 and a non-zero advance; distinct by per-case seed')
    cov['slot_comparisons'] = int(t.get('slot_comparisons', 0))
    cov['worst_error_over_tolerance'] = round(t.get('max_error_over_tolerance_x1e6', 0) / 1e6, 6)
    cov['justified_lines_compared'] = int(t.get('justified_lines_compared', 0))
    cov['justified_lines_whose_width_changed'] = int(t.get('justified_lines_whose_width_changed', 0))
    cov['worst_justified_error_over_coarse_tolerance'] = round(t.get('max_justified_error_over_tolerance_x1e6', 0) / 1e6, 6)
    cov['finalise_decisions_compared'] = int(t.get('finalise_decisions_compared', 0))
    cov['pairs_with_a_flipped_finalise_decision'] = int(t.get('pairs_with_a_flipped_finalise_decision', 0))
    cov['shipped_fonts'] = len(fonts.shipped())
    cov['synth_fonts'] = len(paths)
    cov['samples'] = cov['samples'][:12]
    chk.require(t.get('slot_comparisons', 0) > 10000, 'too few slot comparisons')
