"""C15 - positions are design-unit results scaled linearly by the font size (DESIGN.md section 5, C15)."""
from .. import fonts, synthwork

META = dict(
    technique='metamorphic monitor: font = NULL vs unhinted gr_font of P ppm for the same arguments; structural dumps equal, every origin/advance compared with s x design value under a derived float32 rounding tolerance; ASan+UBSan build',
    level='exploration: for shipped fonts (incl. collision and RTL fonts) and synthesised fonts with shifts/attachments, seeded (text, dir, features, ppm in {0.5..4096} and log-uniform [1e-3,4096]) pairs must have identical '
          'glyphs/attachments/associations and positions equal to (P/upem) x design-unit value within tol = 2 k eps s max(M, upem), k = 2 n_slots + 4; evidence prints the worst observed error/tolerance ratio',
    note='tolerance is magnitude-relative (collision/kerning arithmetic cancels large coordinates); a missing or doubled scale factor gives errors >= 1000 x tol except at ppm = upem; hinted fonts are excluded by the statement',
)


def run(chk):
    quick = chk.tier == 'quick'
    cov = chk.coverage
    parts = []
    for fpath, tpath, _ in fonts.shipped():
        parts.append(dict(harness='h_diff', flavour='asan', args=['--part', 'scale', '--font', fpath, '--texts', tpath], cases=1500 if quick else 20000, nshards=2 if quick else 8, nsamples=1))
    lst, paths = synthwork.make_fonts('c06', chk.seed, 40 if quick else 600)
    for p in paths:
        parts.append(dict(harness='h_diff', flavour='asan', args=['--part', 'scale', '--font', p], cases=150 if quick else 600, nshards=1, nsamples=0))
    chk.run_parts(parts, workers=10)
    t = chk.tot
    cov['evaluations'] = int(t.get('pairs', 0))
    cov['distinct_nontrivial'] = int(t.get('nontrivial', 0))
    cov['rule'] = ('one case = (font, text, encoding, dir, features, ppm) shaped with font=NULL and with gr_make_font(ppm); non-trivial: >= 2 slots, |s-1| > 1e-3 and a non-zero advance; distinct by per-case seed')
    cov['slot_comparisons'] = int(t.get('slot_comparisons', 0))
    cov['worst_error_over_tolerance'] = round(t.get('max_error_over_tolerance_x1e6', 0) / 1e6, 6)
    cov['shipped_fonts'] = len(fonts.shipped())
    cov['synth_fonts'] = len(paths)
    cov['samples'] = cov['samples'][:12]
    chk.require(t.get('slot_comparisons', 0) > 10000, 'too few slot comparisons')
