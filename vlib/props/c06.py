"""C06 - passes apply rules with the documented matching and precedence semantics (DESIGN.md section 5, C06, Appendix B)."""
import itertools
import json
import os
import random
import subprocess
from concurrent.futures import ProcessPoolExecutor

from .. import build
from .. import run as R
from ..fontlib import gdl, gen, ref

META = dict(
    technique='reference-model monitor: seeded GDL-lite programs are compiled to complete fonts (FSM by subset construction, bytecode in the compiler\'s idiom) and shaped by the real engine (ASan+UBSan build, H2 rule-fired hook) while an independent Python interpreter of the documented semantics shapes the same glyph strings; '
              'glyphs, attachments, associations, slot attributes, design-unit origins, segment advance, char-info and the rule-firing trace are compared exactly',
    level='exploration: programs inside the stated subset (pre-context 0..2 uniform and mixed, rule length <= 5, overlapping linear and lookup classes, constraints over glyph attributes / user attributes / features, put_glyph, put_subs, put_copy, insert, delete, assoc, advance/shift/user/attach with attach points, cursor moves -3..+2, maxRuleLoop 1..8, LTR and RTL fonts) x all strings of length <= 3 over three glyphs + random strings, both text directions, random feature values; all metrics are small integers so every engine float is exact',
    note='equivalence is to my reading of doc/GTF.adoc / doc/OpCodes.adoc plus the transcribed rules of DESIGN.md Appendix B; reads of state modified earlier in the same rule are not generated (the documents do not define them); collision, bidi and justification passes are outside the subset',
)

WORKDIR = os.path.join(build.WORK, 'c06')


def strings_for(rng):
    ss = [''.join(p) for n in (1, 2, 3) for p in itertools.product('abc', repeat=n)]
    ss += [''.join(rng.choice('abcdef') for _ in range(rng.randrange(4, 24))) for _ in range(21)]
    return ss


def one_program(args):
    exe, seed, idx, keep = args
    rng = random.Random(seed * 1000003 + idx)
    allow = set(gen.C06_ALL)
    # program classes: a third uniform pre-context (the property's quantifier), the rest with the mixed extension
    if idx % 3 == 0:
        allow.discard('mixed')
    for attempt in range(10):
        spec = gen.gen_spec(rng, allow)
        gen.vary_container(rng, spec)
        try:
            font = gdl.build_font(spec)
            break
        except ValueError:
            continue
    else:
        return dict(skipped=1)
    os.makedirs(WORKDIR, exist_ok=True)
    fn = os.path.join(WORKDIR, 'p%d_%d_%d.ttf' % (os.getpid(), seed, idx))
    with open(fn, 'wb') as f:
        f.write(font)
    ss = strings_for(rng)
    nfeat = len(spec.get('feats', []))
    cases = []
    for s in ss:
        for tdir in (0, 1):
            if tdir == 1 and 'rtl' not in allow:
                continue
            fv = [rng.randrange(4) if nfeat > i and rng.random() < 0.7 else 0 for i in range(2)]
            cases.append((tdir, fv, s))
    inp = ''.join('%d %d %d %s\n' % (d, fv[0], fv[1], s) for d, fv, s in cases)
    env = dict(os.environ)
    env.update(R.SAN_ENV)
    out = subprocess.run([exe, '--font', fn, '--nuser', '2'], input=inp, capture_output=True, text=True, env=env, timeout=600)
    res = dict(programs=1, cases=0, fired=0, contested=0, first_failed=0, nontrivial=0, mismatches=[], died=0, rulectx=set(), uniform=int('mixed' not in allow), sample=None)
    try:
        os.unlink(fn)
    except OSError:
        pass
    lines = out.stdout.split('\n')
    if out.returncode != 0:
        kind, site = R.parse_report(out.stderr)
        res['crash'] = dict(kind=kind or 'exit%d' % out.returncode, site=site or 'unknown', report=out.stderr[-3000:], spec=spec)
        return res
    if lines and lines[0] == 'NOFACE':
        res['noface'] = 1
        res['noface_spec'] = spec
        return res
    for (tdir, fv, s), l in zip(cases, lines):
        res['cases'] += 1
        tr = []
        feats = {i: fv[i] for i in range(2)}
        try:
            st = ref.shape(spec, [1 + ord(c) - 0x61 for c in s], feats=feats, trace=tr, textdir=tdir)
            d = ref.dump(st)
            d['trace'] = [list(t) for t in tr]
        except ref.Died:
            d = None
            res['died'] += 1
        e = json.loads(l)
        res['fired'] += e.get('fired', 0)
        res['contested'] += e.get('contested', 0)
        res['first_failed'] += e.get('first_failed', 0)
        for t in e.get('trace', []):
            res['rulectx'].add((idx, t[0], t[1]))
        if e.get('null'):
            ecmp = None
        else:
            ecmp = {k: e[k] for k in ('slots', 'adv', 'cinfo', 'trace')}
        if d is not None:
            d['adv'] = float(d['adv'])
            for sl in d['slots']:
                sl['x'] = float(sl['x'])
                sl['y'] = float(sl['y'])
        if ecmp != d:
            which = 'null' if (ecmp is None) != (d is None) else next((k for k in ('trace', 'slots', 'cinfo', 'adv') if ecmp[k] != d[k]), '?')
            if len(res['mismatches']) < 3:
                res['mismatches'].append(dict(which=which, text=s, textdir=tdir, feats=fv, engine=ecmp, reference=d, spec=spec))
            else:
                res['mismatches'].append(dict(which=which))
        elif ecmp is not None and e.get('fired', 0) > 0 and [sl['gid'] for sl in e['slots']] != [1 + ord(c) - 0x61 for c in (s if tdir == spec.get('dir', 0) or True else s)]:
            res['nontrivial'] += 1
        if res['sample'] is None and e.get('fired', 0) > 1 and len(s) > 3:
            res['sample'] = dict(program=idx, text=s, textdir=tdir, fontdir=spec.get('dir', 0), feats=fv, passes=len(spec['passes']), trace=e.get('trace', [])[:12],
                                 gids=[sl['gid'] for sl in (e.get('slots') or [])])
    res['rulectx'] = len(res['rulectx'])
    return res


def run(chk):
    quick = chk.tier == 'quick'
    cov = chk.coverage
    exe = build.harness('h_rules', 'asan')
    nprog = 1600 if quick else 40000
    with ProcessPoolExecutor(16) as ex:
        results = list(ex.map(one_program, [(exe, chk.seed, i, False) for i in range(nprog)], chunksize=4))
    tot = dict(programs=0, cases=0, fired=0, contested=0, first_failed=0, nontrivial=0, died=0, rulectx=0, uniform=0, noface=0, skipped=0)
    nmis = 0
    for r in results:
        for k in tot:
            tot[k] += r.get(k, 0) if not isinstance(r.get(k, 0), set) else 0
        if r.get('sample') and len(cov['samples']) < 6:
            cov['samples'].append(r['sample'])
        if r.get('crash'):
            c = r['crash']
            chk.violation('san:%s:%s' % (c['kind'], c['site']), 'engine crashed on a C06 program', dict(report=c['report'], spec=c['spec']))
        if r.get('noface'):
            # a well-formed program that the loader refuses is my builder's error or an engine defect: never silent
            chk.violation('load-refused', 'the engine refuses a font compiled from a well-formed GDL-lite program', dict(spec=r.get('noface_spec')))
        for m in r.get('mismatches', []):
            nmis += 1
            if 'spec' in m:
                chk.violation('semantics:' + m['which'], 'text=%s textdir=%d feats=%s: engine and reference differ in %s' % (m['text'], m['textdir'], m['feats'], m['which']),
                              dict(text=m['text'], textdir=m['textdir'], feats=m['feats'], engine=m['engine'], reference=m['reference'], spec=m['spec']))
            else:
                chk.violation('semantics:' + m['which'], 'more disagreements of the same program')
    cov['evaluations'] = tot['cases']
    cov['distinct_nontrivial'] = tot['nontrivial']
    cov['rule'] = ('one case = (program, glyph string, text direction, feature values); programs are drawn from a per-index seed, strings = all strings of length <= 3 over {a,b,c} + 21 random strings of length 4..23 over six glyphs, both text directions; '
                   'non-trivial = at least one rule fired and the output glyph sequence differs from the input; distinct by (program index, string, direction)')
    cov['programs'] = tot['programs']
    cov['programs_uniform_precontext'] = tot['uniform']
    cov['programs_mixed_precontext'] = tot['programs'] - tot['uniform']
    cov['rules_fired'] = tot['fired']
    cov['distinct_pass_rule_pairs_fired'] = tot['rulectx']
    cov['firings_with_two_or_more_candidates'] = tot['contested']
    cov['firings_after_an_earlier_candidate_failed_its_constraint'] = tot['first_failed']
    cov['cases_refused_by_growth_or_loop_guards'] = tot['died']
    cov['disagreements'] = nmis
    cov['programs_skipped_by_builder'] = tot['skipped']
    chk.assumptions += ['reference semantics = DESIGN.md Appendix B (documented + transcribed rules)', 'all glyph metrics are small integers: comparison is exact']
    chk.require(tot['fired'] > 5000, 'too few rule firings')
    chk.require(tot['contested'] > 500 and tot['first_failed'] > 100, 'precedence was hardly exercised')


def replay(w):
    wit = w.get('witness') or {}
    spec = wit.get('spec')
    if not spec:
        print(json.dumps(w, indent=1)[:3000])
        return 0
    exe = build.harness('h_rules', 'asan')
    os.makedirs(WORKDIR, exist_ok=True)
    fn = os.path.join(WORKDIR, 'replay.ttf')
    with open(fn, 'wb') as f:
        f.write(gdl.build_font(spec))
    text, tdir, fv = wit.get('text', 'abc'), wit.get('textdir', 0), wit.get('feats', [0, 0])
    env = dict(os.environ)
    env.update(R.SAN_ENV)
    out = subprocess.run([exe, '--font', fn, '--nuser', '2'], input='%d %d %d %s\n' % (tdir, fv[0], fv[1], text), capture_output=True, text=True, env=env)
    print('engine   :', out.stdout.strip()[:3000], out.stderr[-2000:])
    tr = []
    try:
        st = ref.shape(spec, [1 + ord(c) - 0x61 for c in text], feats={0: fv[0], 1: fv[1]}, trace=tr, textdir=tdir)
        d = ref.dump(st)
        d['trace'] = tr
        print('reference:', json.dumps(d)[:3000])
    except ref.Died:
        print('reference: NULL (growth / loop guard)')
    return 1
