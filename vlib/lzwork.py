"""C14(a,c): fonts whose Silf / Glat tables are stored compressed in many valid ways, and fonts whose compressed-table
headers lie.  All variants are built from the uncompressed plaintext obtained with the reference decoder."""
import os
import random
import shutil
import struct
from concurrent.futures import ProcessPoolExecutor

from . import build, fonts, synthwork
from .fontlib import lz4, sfnt


def _variant(args):
    base, outdir, name, tables, mode, seed, lie = args
    d = open(base, 'rb').read()
    t = sfnt.tables_of(d)
    rng = random.Random(seed)
    for tag in tables:
        plain = t[tag]
        c = lz4.compress_table(plain, rng, mode)
        if lie == 'scheme':
            hdr = struct.unpack('>I', c[4:8])[0]
            c = c[:4] + struct.pack('>I', (hdr & 0x07FFFFFF) | (rng.choice([2, 3, 31]) << 27)) + c[8:]
        elif lie == 'size':
            hdr = struct.unpack('>I', c[4:8])[0]
            c = c[:4] + struct.pack('>I', (1 << 27) | ((hdr & 0x07FFFFFF) + rng.choice([-1, 1, 4, -4]))) + c[8:]
        elif lie == 'version':
            v = struct.unpack('>I', c[:4])[0]
            c = struct.pack('>I', v ^ rng.choice([1, 0x100])) + c[4:]
        t[tag] = c
    path = os.path.join(outdir, name)
    with open(path, 'wb') as f:
        f.write(sfnt.build_sfnt(t))
    shrinks = all(len(t[tag]) - 8 < len(sfnt.tables_of(d)[tag]) and len(t[tag]) - 8 >= 13 for tag in tables)
    return path, shrinks


def _plain(args):
    src, dst = args
    d = open(src, 'rb').read()
    t = sfnt.tables_of(d)
    for tag in ('Silf', 'Glat'):
        t[tag] = lz4.decompress_table(t[tag])
    with open(dst, 'wb') as f:
        f.write(sfnt.build_sfnt(t))
    return dst


def compressible(path):
    t = sfnt.tables_of(open(path, 'rb').read())
    return struct.unpack('>I', t['Silf'][:4])[0] >= 0x00050000, struct.unpack('>I', t['Glat'][:4])[0] >= 0x00030000


def make(seed, quick):
    """-> (pairs [(plain font, compressed variant, text file)], mustfail [paths], stats)"""
    outdir = os.path.join(build.WORK, 'lz', 'lz-%d-%s-%s' % (seed, 'q' if quick else 't', synthwork.code_hash()))
    synthwork._prune(os.path.join(build.WORK, 'lz'))
    marker = os.path.join(outdir, 'done.txt')
    if os.path.exists(marker):
        import json
        info = json.load(open(marker))
        if all(os.path.exists(a) and os.path.exists(b) for a, b, _ in info['pairs']) and all(os.path.exists(m) for m in info['mustfail']):
            return info
    tmp = outdir + '.tmp%d' % os.getpid()
    shutil.rmtree(tmp, ignore_errors=True)
    os.makedirs(tmp)
    bases = []
    # shipped compressed fonts -> plaintext twins
    jobs = []
    for name, txt in (('Awami_compressed_test.ttf', 'awami_tests.txt'), ('AwamiNastaliq-Regular.ttf', 'awami_tests.txt')):
        jobs.append((fonts.font(name), os.path.join(tmp, 'plain-' + name)))
        bases.append((os.path.join(tmp, 'plain-' + name), fonts.text(txt), fonts.font(name)))
    with ProcessPoolExecutor(4) as ex:
        list(ex.map(_plain, jobs))
    # synthesised fonts in the compressible table versions
    for kind in ('c06', 'just', 'hostile'):
        lst, paths = synthwork.make_fonts(kind, seed, 40 if quick else 400)
        n = 0
        for p in paths:
            s5, g3 = compressible(p)
            if s5 or g3:
                bases.append((p, '', None))
                n += 1
                if n >= (8 if quick else 120):
                    break
    vjobs = []
    pairs = []
    mustfail_jobs = []
    rng = random.Random(seed)
    for bi, (plain, txt, original) in enumerate(bases):
        s5, g3 = compressible(plain)
        combos = [c for c in (('Silf',) if s5 else None, ('Glat',) if g3 else None, ('Silf', 'Glat') if s5 and g3 else None) if c]
        big = os.path.getsize(plain) > 200000
        if original:
            pairs.append((plain, original, txt))          # the shipped encoding itself
        nenc = (2 if big else 4) if quick else (12 if big else 30)
        for e in range(nenc):
            mode = ['greedy', 'random', 'overlap', 'barely'][(e + bi) % 4]      # barely = only 1..8 bytes shorter than the plaintext
            combo = combos[e % len(combos)]
            name = 'v%03d-%s-%s-%d.ttf' % (bi, mode, '+'.join(combo), e)
            vjobs.append((plain, tmp, name, combo, mode, rng.randrange(1 << 30), None))
            pairs.append((plain, os.path.join(outdir, name), txt))
        if not big or not quick:
            for lie in ('scheme', 'size', 'version'):
                name = 'lie%03d-%s.ttf' % (bi, lie)
                mustfail_jobs.append((plain, tmp, name, combos[0], 'greedy', rng.randrange(1 << 30), lie))
            mustfail_jobs.append((plain, tmp, 'lit%03d.ttf' % bi, combos[0], 'literal', 1, None))     # does not shrink: refused by contract
    with ProcessPoolExecutor(16) as ex:
        vres = list(ex.map(_variant, vjobs))
        mres = list(ex.map(_variant, mustfail_jobs))
    noshrink = [os.path.join(outdir, os.path.basename(p)) for p, shr in vres if not shr]
    pairs = [(a, b, t) for a, b, t in pairs if b not in noshrink]
    pairs = [(a.replace(tmp, outdir), b, t) for a, b, t in pairs]
    mustfail = [os.path.join(outdir, os.path.basename(p)) for p, _ in mres] + noshrink
    out = dict(pairs=pairs, mustfail=mustfail, bases=len(bases), variants=len(vres), nonshrinking_variants=len(noshrink))
    import json
    with open(os.path.join(tmp, 'done.txt'), 'w') as f:
        json.dump(out, f)
    shutil.rmtree(outdir, ignore_errors=True)
    os.rename(tmp, outdir)
    return out
