"""Regenerates /verif/MANIFEST.json from the META dict of every property module that exists.
Properties without a module are listed under not_applicable with the reason PENDING[...] (none should
remain at the end of the build round)."""
import importlib
import json
import os
import subprocess
import sys

sys.path.insert(0, os.path.dirname(os.path.dirname(os.path.abspath(__file__))))
from vlib import build  # noqa: E402

PENDING = {}


def hook_commits():
    try:
        out = subprocess.run(['git', '-C', build.REPO, 'log', '--format=%h %s'], capture_output=True, text=True).stdout
    except OSError:
        return []
    return [l.split()[0] for l in out.splitlines() if l.split(' ', 1)[1].startswith('hook:')]


def main():
    props = [json.loads(l) for l in open(os.path.join(build.VERIF, 'properties.jsonl'))]
    checks, na = [], []
    for p in props:
        pid = p['id']
        path = os.path.join(build.VERIF, 'vlib', 'props', pid.lower() + '.py')
        if not os.path.exists(path):
            na.append({'property_id': pid, 'reason': PENDING.get(pid, 'check not built yet in this round (planned: DESIGN.md section 5)')})
            continue
        m = importlib.import_module('vlib.props.' + pid.lower())
        meta = m.META
        checks.append({
            'property_id': pid,
            'quick_cmd': 'python3 bin/vcheck %s --tier quick' % pid,
            'thorough_cmd': 'python3 bin/vcheck %s --tier thorough' % pid,
            'evidence_file': 'evidence/%s.json' % pid,
            'replay_cmd_template': 'python3 bin/vcheck replay {path}',
            'engine': meta.get('engine', 'vcheck'),
            'level_claimed': {'category': meta.get('category', 'exploration'), 'text': meta['level'], 'design_ref': meta.get('design_ref', 'DESIGN.md section 5, ' + pid)},
            'level_note': meta['note'],
            'technique': meta['technique'],
        })
    man = {
        'version': 1,
        'setup_cmd': 'python3 bin/vcheck setup',
        'hooks': {
            'guard': build.GUARD,
            'enable': 'vlib/build.py compiles $VERIF_REPO/src/*.cpp (default /repo, current working tree) directly with -D%s and the sanitizer flags of the flavour a check asks for; the CMake tree is not used by the checks' % build.GUARD,
            'baseline_off_cmd': 'cmake --build /repo/_build && ctest --test-dir /repo/_build -j8 --timeout 900',
            'source_commits': hook_commits(),
            'add_only': True,
        },
        'engines': [{'name': 'vcheck', 'path': 'bin/vcheck', 'serves_properties': [c['property_id'] for c in checks],
                     'kind_free_text': 'runtime monitoring: sanitizer builds of the working tree + C++ harnesses with oracles (reference models, differential and invariant monitors) driven by seeded generators; python orchestration, known-findings matching, evidence'}],
        'checks': checks,
        'notes': 'Family: runtime monitoring and sanitizers. Known findings and fixed defects: known_findings.json; design, false-alarm log and seeded-break results: DESIGN.md.',
        'not_applicable': na,
    }
    with open(os.path.join(build.VERIF, 'MANIFEST.json'), 'w') as f:
        json.dump(man, f, indent=1)
    print('MANIFEST: %d checks, %d not claimed' % (len(checks), len(na)))


if __name__ == '__main__':
    main()
