"""Verdict bookkeeping shared by every property module: violations -> known-findings matching ->
VIOLATION / KNOWN-FINDING / INCONCLUSIVE lines, replay witnesses, evidence file, exit code.

Exit codes: 0 held (possibly with KNOWN-FINDING lines), 1 violated, 2 inconclusive / harness failure.
"""
import fnmatch
import hashlib
import json
import os
import sys
import threading
import time

from . import build

VERIF = build.VERIF
# VERIF_EVIDENCE_DIR redirects evidence (used when a seeded breaking change is applied: that run must not overwrite the
# evidence of the real tree)
EVID = os.environ.get('VERIF_EVIDENCE_DIR') or os.path.join(VERIF, 'evidence')
KF_FILE = os.path.join(VERIF, 'known_findings.json')


def load_known():
    if not os.path.exists(KF_FILE):
        return []
    with open(KF_FILE) as f:
        return json.load(f)


def _font_class(desc):
    """Generated fonts that belong to a class a known finding is about carry a tag in their file name; crashes and hangs on them are keyed
    with the class so that the finding does not hide the same report on any other font."""
    return ':extreme-just-attrs' if '_jx.ttf' in (desc or '') else ''


class Check:
    def __init__(self, prop, tier, seed):
        self.prop = prop
        self.tier = tier
        self.seed = seed
        self.t0 = time.time()
        self.viol = {}          # key -> dict(count, text, witness)
        self.inconclusive = []
        self.coverage = {'evaluations': 0, 'distinct_nontrivial': 0, 'rule': '', 'samples': []}
        self.assumptions = []
        self.notes = []
        self._distinct = set()
        self.tot = {}
        self._lock = threading.RLock()
        self.known = [k for k in load_known() if k.get('property') == prop]

    # ---- observations -------------------------------------------------
    def violation(self, key, text='', witness=None):
        """key: '<clause>:<signature>' (the property id is prefixed here)."""
        full = '%s:%s' % (self.prop, key)
        v = self.viol.setdefault(full, {'count': 0, 'text': text, 'witness': witness})
        v['count'] += 1

    def add_results(self, results, harness=None, flavour=None):
        """Fold ShardResults in: oracle firings, sanitizer reports, time-outs, internal failures."""
        for r in results:
            for key, text in r.violations:
                self.violation(key, text, dict(harness=harness, flavour=flavour, cmd=r.cmd, text=text))
            for c in r.crashes:
                self.violation('san:%s:%s%s' % (c['kind'], c['site'], _font_class(c['desc'])), c['desc'],
                               dict(harness=harness, flavour=flavour, args=[str(a) for a in c['args']], case=c['case'],
                                    desc=c['desc'], report=c['report']))
            for t in r.timeouts:
                self.violation('hang:%s%s' % (harness or 'case', _font_class(t['desc'])), t['desc'],
                               dict(harness=harness, flavour=flavour, args=[str(a) for a in t['args']], case=t['case'],
                                    desc=t['desc']))
            for i in r.internal:
                self.inconclusive.append(i)
            self.notes.extend(r.diag[:5])

    def run_part(self, harness, flavour, args, cases, nshards=16, extra=(), env=None, wall=1800, nsamples=2, seed=None):
        """Build + run one harness part over nshards processes; fold results, stats (into self.tot) and samples."""
        from . import run as R
        exe = build.harness(harness, flavour, extra)
        res, dt = R.run_shards(exe, args, nshards, cases, self.seed if seed is None else seed, env=env, wall=wall)
        s = R.merge_stats(res)
        with self._lock:
            self.add_results(res, harness, flavour)
            R._merge(self.tot, s)
            k = 0
            for r in res:
                if r.samples and k < nsamples:
                    self.coverage['samples'].append(r.samples[len(r.samples) // 2])
                    k += 1
        return s

    def run_parts(self, parts, workers=8):
        """parts: list of kwargs dicts for run_part, executed concurrently (builds are done first, serially)."""
        from concurrent.futures import ThreadPoolExecutor
        for p in parts:
            build.harness(p['harness'], p['flavour'], p.get('extra', ()))
        with ThreadPoolExecutor(workers) as ex:
            return list(ex.map(lambda kw: self.run_part(**kw), parts))

    def nontrivial(self, ident):
        self._distinct.add(ident if isinstance(ident, (str, bytes, int)) else repr(ident))

    def require(self, cond, why):
        if not cond:
            self.inconclusive.append(why)

    # ---- verdict ------------------------------------------------------
    def _match_known(self, key):
        for k in self.known:
            if k.get('status') == 'open' and fnmatch.fnmatchcase(key, k['key']):
                return k
        return None

    def _regressed(self, key):
        for k in self.known:
            if k.get('status') == 'fixed' and fnmatch.fnmatchcase(key, k['key']):
                return k
        return None

    def finish(self, level='exploration'):
        wall = time.time() - self.t0
        cov = self.coverage
        if not cov.get('distinct_nontrivial'):
            cov['distinct_nontrivial'] = len(self._distinct)
        rdir = os.path.join(EVID, 'replay', self.prop)
        lines = []
        nviol = 0
        known_hit = {}
        for key, v in sorted(self.viol.items()):
            kf = self._match_known(key)
            if kf is not None:
                known_hit.setdefault(kf['key'], [kf, 0])[1] += v['count']
                continue
            nviol += 1
            os.makedirs(rdir, exist_ok=True)
            path = os.path.join(rdir, hashlib.sha1(key.encode()).hexdigest()[:12] + '.json')
            w = dict(property=self.prop, key=key, count=v['count'], text=v['text'], witness=v['witness'],
                     seed=self.seed, tier=self.tier)
            reg = self._regressed(key)
            if reg is not None:
                w['regressed_fixed_entry'] = reg.get('id')
            with open(path, 'w') as f:
                json.dump(w, f, indent=1, default=str)
            lines.append('VIOLATION property=%s replay=%s key=%s count=%d%s :: %s' % (
                self.prop, path, key, v['count'],
                ' (regression of fixed finding %s)' % reg.get('id') if reg is not None else '', (v['text'] or '')[:300]))
        for kkey, (kf, n) in sorted(known_hit.items()):
            print('KNOWN-FINDING: property=%s %s [%s, %d firings] %s' % (self.prop, kf['key'], kf.get('id', ''), n, kf.get('what', '')))
        for k in self.known:
            # a listed finding the workload of this run did not reach is still announced (with what was observed: nothing)
            if k.get('status') == 'open' and k.get('property') == self.prop and k['key'] not in known_hit:
                print('KNOWN-FINDING: property=%s %s [%s, not observed in this run] %s' % (self.prop, k['key'], k.get('id', ''), k.get('what', '')))
        cov['known_finding_firings'] = {k: n for k, (kf, n) in known_hit.items()}
        ev = dict(property_id=self.prop, tier=self.tier, seed=self.seed, level=level, coverage=cov,
                  assumptions=self.assumptions, wall_s=round(wall, 2), violations=nviol)
        if self.inconclusive:
            ev['coverage']['inconclusive_reasons'] = self.inconclusive[:10]
        if self.notes:
            ev['coverage']['notes'] = self.notes[:20]
        ok_ev = cov.get('evaluations', 0) >= 1 and cov.get('distinct_nontrivial', 0) >= 2 and cov.get('samples')
        os.makedirs(EVID, exist_ok=True)
        tmp = os.path.join(EVID, '.%s.json.tmp' % self.prop)
        with open(tmp, 'w') as f:
            json.dump(ev, f, indent=1, default=str)
        os.rename(tmp, os.path.join(EVID, self.prop + '.json'))
        for l in lines:
            print(l)
        if nviol:
            print('RESULT property=%s violated (%d distinct keys) wall=%.1fs' % (self.prop, nviol, wall))
            sys.stdout.flush()
            return 1
        if self.inconclusive or not ok_ev:
            for i in self.inconclusive[:10]:
                print('INCONCLUSIVE property=%s reason=%s' % (self.prop, i.replace('\n', ' | ')[:600]))
            if not ok_ev:
                print('INCONCLUSIVE property=%s reason=too few observations (evaluations=%s distinct_nontrivial=%s)' % (
                    self.prop, cov.get('evaluations'), cov.get('distinct_nontrivial')))
            sys.stdout.flush()
            return 2
        print('RESULT property=%s held on everything explored: evaluations=%d distinct_nontrivial=%d wall=%.1fs' % (
            self.prop, cov['evaluations'], cov['distinct_nontrivial'], wall))
        sys.stdout.flush()
        return 0
