"""Generates batches of synthesised fonts (work/synth/...) and runs h_shape over them."""
import json
import os
import random
import shutil
from concurrent.futures import ProcessPoolExecutor

from . import build
from .fontlib import gdl, gen


def _make(args):
    kind, seed, i, outdir = args
    rng = random.Random((seed * 1000003 + i) * 7 + {'hostile': 1, 'c06': 2, 'wellformed': 3, 'just': 4, 'stateful': 5, 'cmap': 6, 'feat': 7, 'capedge': 8}.get(kind, 9))
    for attempt in range(20):
        try:
            if kind == 'hostile':
                spec = gen.hostile_spec(rng)
            elif kind == 'just':
                spec = gen.just_spec(rng)
            elif kind == 'stateful':
                spec = gen.stateful_spec(rng)
            elif kind == 'cmap':
                spec = gen.cmap_spec(rng)
            elif kind == 'feat':
                spec = gen.feat_spec(rng)
            elif kind == 'capedge':
                spec = gen.capedge_spec(rng)
            else:
                spec = gen.gen_spec(rng, gen.C06_ALL)
            if kind != 'cmap' or rng.random() < 0.5:
                gen.vary_container(rng, spec)
                # the Glat encoding variants are dealt out by font index rather than drawn, so that every (version, run style, density)
                # combination is present in any 36 consecutive fonts of a set
                spec['glat_version'] = 1 + i % 3
                spec['glat_runs'] = ('max', 'single', 'split')[(i // 3) % 3]
                spec['glat_dense'] = (False, 'odd', 'late', 'all')[(i // 9) % 4]
            data = gdl.build_font(spec)
        except ValueError:
            continue
        # fonts whose positioning / justification passes re-associate slots (ASSOC, PUT_COPY) are tagged in the file
        # name: the engine computes character coverage before those passes (known finding KF-C05-1)
        pa = any(a[0] in ('assoc', 'put_copy') for P in spec['passes'] if P['type'] in ('pos', 'just')
                 for r in P['rules'] if r.get('raw_acts') is None for acts in r['acts'] for a in acts)
        # ... and fonts whose justification attributes sit at the edges of their 16-bit range are tagged too (known findings KF-C19-2/3)
        path = os.path.join(outdir, '%s%04d%s%s.ttf' % (kind[0], i, '_pa' if pa else '', '_jx' if spec.get('just_extreme') else ''))
        with open(path, 'wb') as f:
            f.write(data)
        with open(path[:-4] + '.json', 'w') as f:
            json.dump(spec, f)
        if spec.get('texts'):
            with open(path[:-4] + '.texts', 'w') as f:
                f.write('\n'.join(spec['texts']) + '\n')
        if spec.get('pseudos'):
            ng = len(spec['glyphs'])
            with open(path[:-4] + '.pseudo', 'w') as f:
                for u, g in spec['pseudos']:
                    f.write('%d %d %d\n' % (u, g, spec['extra_attr_glyphs'][g - ng]['attrs'][0]))
        return path
    return None


_code_hash = None


def code_hash():
    """Generated fonts are cached in work/; the cache key includes the generator sources so that an edited generator never
    meets stale fonts."""
    global _code_hash
    if _code_hash is None:
        import hashlib
        h = hashlib.sha1()
        d = os.path.dirname(os.path.abspath(__file__))
        for fn in ('synthwork.py', 'lzwork.py', 'fontlib/gen.py', 'fontlib/gdl.py', 'fontlib/sfnt.py', 'fontlib/lz4.py'):
            with open(os.path.join(d, fn), 'rb') as f:
                h.update(f.read())
        _code_hash = h.hexdigest()[:8]
    return _code_hash


def _prune(root):
    # caches made by another version of the generator are useless: remove them (disk is limited)
    if not os.path.isdir(root):
        return
    # (only when older than three hours: a check started before the generator was edited may still be reading them)
    import time
    for d in os.listdir(root):
        full = os.path.join(root, d)
        try:
            old = time.time() - os.path.getmtime(full) > 3 * 3600
        except OSError:
            continue
        if not d.endswith('-' + code_hash()) and old:
            shutil.rmtree(full, ignore_errors=True)


def make_fonts(kind, seed, count):
    outdir = os.path.join(build.WORK, 'synth', '%s-%d-%d-%s' % (kind, seed, count, code_hash()))
    lst = os.path.join(outdir, 'fontlist.txt')
    _prune(os.path.join(build.WORK, 'synth'))
    if os.path.exists(lst):
        return lst, [l for l in open(lst).read().split('\n') if l]
    tmp = outdir + '.tmp%d' % os.getpid()
    shutil.rmtree(tmp, ignore_errors=True)
    os.makedirs(tmp)
    with ProcessPoolExecutor(16) as ex:
        paths = [p for p in ex.map(_make, [(kind, seed, i, tmp) for i in range(count)], chunksize=8) if p]
    paths = [os.path.join(outdir, os.path.basename(p)) for p in paths]
    with open(os.path.join(tmp, 'fontlist.txt'), 'w') as f:
        f.write('\n'.join(paths) + '\n')
    shutil.rmtree(outdir, ignore_errors=True)
    try:
        os.rename(tmp, outdir)
    except OSError:
        shutil.rmtree(tmp, ignore_errors=True)
    return lst, paths


def run_fontlist(chk, kind, judge, quick, flavours=('asan',), per_font=None, count=None):
    count = count or (128 if quick else 3000)
    per_font = per_font or (60 if quick else 200)
    lst, paths = make_fonts(kind, chk.seed, count)
    for fl in flavours:
        # cases = total case-id space (fonts x per_font); fonts are dealt to shards round-robin inside the harness
        chk.run_part('h_shape', fl, ['--fontlist', lst, '--per-font', per_font, '--hostile', 1, '--judge', judge,
                                     '--realgids', 1 if kind != 'hostile' else 0], len(paths) * per_font, 16, nsamples=2)
    return len(paths)
