"""Shard runner: executes a harness in N parallel processes, attributes sanitizer reports and
CPU-budget overruns to the case that was executing, and restarts the shard after the failing case
(one process per *crashing* case, many cases per healthy process).

Harness command-line convention (see harness/common.hpp):
    exe --seed S --shard I --nshards N --cases C [--start K] [--only K] [extra...]
stdout protocol, one record per line:
    V <key> <free text witness>        an oracle fired
    S <json object>                    shard statistics (summed / merged by the caller)
    X <json object>                    a sample case written out
    D <text>                           diagnostic (kept, not judged)
stderr: sanitizer report, plus 'CRASHCASE <k> <description>' printed by the signal handler,
or 'TIMEOUTCASE <k> <description>' when the per-case CPU budget expired (exit code 4).
Exit code 3 = harness-internal failure (inconclusive, never a violation).
"""
import json
import os
import re
import subprocess
import threading
import time
from concurrent.futures import ThreadPoolExecutor

SAN_ENV = {
    'ASAN_OPTIONS': 'abort_on_error=1:halt_on_error=1:detect_leaks=1:allocator_may_return_null=1:'
                    'strict_string_checks=1:handle_abort=0:print_summary=1:max_malloc_fill_size=4096:malloc_fill_byte=190',
    'UBSAN_OPTIONS': 'print_stacktrace=1:halt_on_error=1:abort_on_error=1',
    'LSAN_OPTIONS': 'exitcode=23',
    'TSAN_OPTIONS': 'halt_on_error=0:second_deadlock_stack=1:exitcode=66',
}

_FRAME = re.compile(r'#\d+ 0x[0-9a-f]+ in (.+?) (?:/\S*?/)?(src|harness|include)/([\w./-]+?):(\d+)')
_FRAME2 = re.compile(r'#\d+ 0x[0-9a-f]+ in (.+?) /\S*/(src|harness|include)/([\w./-]+?):(\d+)')


def parse_report(err):
    """-> (kind, site) for the first sanitizer report in err, or (None, None)."""
    kind = None
    m = re.search(r'ERROR: (AddressSanitizer|LeakSanitizer|ThreadSanitizer): ([\w-]+)', err)
    if m:
        kind = m.group(2)
        if m.group(1) == 'LeakSanitizer':
            kind = 'leak'
    else:
        m = re.search(r'runtime error: (.*)', err)
        if m:
            msg = m.group(1)
            msg = re.sub(r'0x[0-9a-f]+', 'ADDR', msg)
            msg = re.sub(r'-?\d+', 'N', msg)
            kind = 'ub:' + re.sub(r'[^\w]+', '-', msg)[:60].strip('-')
        elif 'WARNING: ThreadSanitizer: data race' in err:
            kind = 'data-race'
    if kind is None:
        return None, None
    site = None
    start = m.start() if m else 0
    for fm in _FRAME.finditer(err, start):
        func, top, path, line = fm.groups()
        if top == 'src' or top == 'include':
            func = re.sub(r'\(.*', '', func)
            func = re.sub(r'<.*>', '', func)
            site = '%s:%s' % (os.path.basename(path), func.split('::')[-1] if func else '?')
            break
    return kind, site or 'unknown-site'


class ShardResult:
    def __init__(self):
        self.violations = []      # (key, text)
        self.stats = []           # dicts
        self.samples = []
        self.diag = []
        self.crashes = []         # dict(case, desc, kind, site, report)
        self.timeouts = []        # dict(case, desc)
        self.internal = []        # text (inconclusive reasons)
        self.cmd = None


def _parse_stdout(out, res):
    for line in out.splitlines():
        if line.startswith('V '):
            parts = line.split(' ', 2)
            res.violations.append((parts[1], parts[2] if len(parts) > 2 else ''))
        elif line.startswith('S '):
            try:
                res.stats.append(json.loads(line[2:]))
            except ValueError:
                res.internal.append('bad S line: ' + line[:200])
        elif line.startswith('X '):
            try:
                res.samples.append(json.loads(line[2:]))
            except ValueError:
                res.samples.append(line[2:])
        elif line.startswith('D '):
            res.diag.append(line[2:])


def run_one(exe, args, env=None, wall=1800, stdin=None):
    e = dict(os.environ)
    e.update(SAN_ENV)
    if env:
        e.update(env)
    try:
        p = subprocess.run([exe] + [str(a) for a in args], capture_output=True, env=e, timeout=wall, input=stdin)
        return p.returncode, p.stdout.decode('utf-8', 'replace'), p.stderr.decode('utf-8', 'replace')
    except subprocess.TimeoutExpired as ex:
        return -999, (ex.stdout or b'').decode('utf-8', 'replace'), (ex.stderr or b'').decode('utf-8', 'replace')


# circuit breaker: once this many cases of one check process have crashed or timed out the verdict is decided (violated, every one of them
# goes through the known-findings matching); the remaining shards are skipped instead of spending a CPU budget per case on a tree where
# every case hangs
ABNORMAL_LIMIT = 150
_abnormal = 0
_abnormal_lock = threading.Lock()


def run_shard(exe, base_args, shard, nshards, cases, seed, env=None, wall=1800, max_crashes=12):
    global _abnormal
    res = ShardResult()
    start = 0
    if _abnormal >= ABNORMAL_LIMIT:
        res.diag.append('shard %d skipped: %d cases of this run already crashed or timed out' % (shard, _abnormal))
        return res
    while True:
        args = ['--seed', seed, '--shard', shard, '--nshards', nshards, '--cases', cases, '--start', start] + list(base_args)
        res.cmd = [exe] + [str(a) for a in args]
        rc, out, err = run_one(exe, args, env, wall)
        _parse_stdout(out, res)
        if rc == 0:
            break
        mc = re.search(r'^(CRASHCASE|TIMEOUTCASE) (-?\d+) ?(.*)$', err, re.M)
        if rc == -999:
            res.internal.append('wall-clock watchdog (%ds) fired in shard %d: inconclusive' % (wall, shard))
            break
        if rc == 3 or mc is None:
            kind, site = parse_report(err)
            if kind and mc is None:
                # a report outside any case (start-up / tear-down): still a sanitizer finding
                res.crashes.append(dict(case=-1, desc='(outside a case)', kind=kind, site=site, report=err[-6000:], args=args))
            else:
                res.internal.append('harness exit %d in shard %d: %s' % (rc, shard, err[-1500:]))
            break
        case = int(mc.group(2))
        desc = mc.group(3)
        if mc.group(1) == 'TIMEOUTCASE':
            res.timeouts.append(dict(case=case, desc=desc, args=args))
        else:
            kind, site = parse_report(err)
            res.crashes.append(dict(case=case, desc=desc, kind=kind or 'abort', site=site or 'unknown-site',
                                    report=err[-6000:], args=args))
        with _abnormal_lock:
            _abnormal += 1
        if len(res.crashes) + len(res.timeouts) >= max_crashes or case < 0 or _abnormal >= ABNORMAL_LIMIT:
            res.diag.append('shard %d stopped after %d crashing cases' % (shard, max_crashes))
            break
        start = case + 1
        if start >= cases:
            break
    return res


def run_shards(exe, base_args, nshards, cases, seed, env=None, wall=1800, workers=16):
    """cases = number of cases per shard."""
    t = time.time()
    with ThreadPoolExecutor(workers) as ex:
        futs = [ex.submit(run_shard, exe, base_args, i, nshards, cases, seed, env, wall) for i in range(nshards)]
        out = [f.result() for f in futs]
    return out, time.time() - t


def merge_stats(results):
    """Sum numeric fields, max over fields starting with 'max_', union lists/dict counters."""
    tot = {}
    for r in results:
        for s in r.stats:
            _merge(tot, s)
    return tot


def _merge(tot, s):
    for k, v in s.items():
        if isinstance(v, bool):
            tot[k] = tot.get(k, False) or v
        elif isinstance(v, (int, float)):
            if k.startswith('max_'):
                tot[k] = max(tot.get(k, v), v)
            elif k.startswith('min_'):
                tot[k] = min(tot.get(k, v), v)
            else:
                tot[k] = tot.get(k, 0) + v
        elif isinstance(v, dict):
            _merge(tot.setdefault(k, {}), v)
        elif isinstance(v, list):
            cur = tot.setdefault(k, [])
            for x in v:
                if x not in cur:
                    cur.append(x)
        else:
            tot.setdefault(k, v)
