// libFuzzer target (thorough tiers of C01 / C02): the input is a whole font file + one trailing option byte.
// Tables are handed to the library as exact-size heap copies (freed on release); a face that loads is queried and shapes a
// few strings in both directions with invariant walks; the H1 hook aborts on an unbounded rule loop.
#include "common.hpp"
using namespace vf;
extern "C" void gr_verif_pass_loop(const void *, unsigned int max_rule_loop, size_t slots, long budget, unsigned long iters, int) {
    double bound = double(max_rule_loop ? max_rule_loop : 1) * (double(slots) + double(budget > 0 ? budget : 0) + 2.0);
    if (double(iters) > bound) { fprintf(stderr, "FUZZ-ORACLE loop-bound: %lu iterations > bound %.0f\n", iters, bound); abort(); }
}
extern "C" int LLVMFuzzerTestOneInput(const uint8_t *data, size_t size) {
    if (size < 16) return 0;
    std::vector<uint8_t> font(data, data + size - 1);
    unsigned opts = data[size - 1] & 7;
    TableMon mon;
    mon.reset(&font);
    gr_face_ops ops = mon.ops();
    gr_face *f = gr_make_face_with_ops(&mon, &ops, opts);
    if (!f) {
        if (!mon.outstanding.empty()) { fprintf(stderr, "FUZZ-ORACLE table outstanding after failed make\n"); abort(); }
        return 0;
    }
    gr_font *fo = gr_make_font(12, f);
    static const char *txt[] = {"abcdefabc", "aaaaaaaaaaaaaaaa", "fedcba", "ab", "c", "", "abbb", "a b a"};
    for (int t = 0; t < 8; ++t)
        for (int dir = 0; dir < 2; ++dir) {
            size_t n = strlen(txt[t]);
            gr_segment *s = gr_make_seg((t & 1) ? fo : nullptr, f, 0, nullptr, gr_utf8, txt[t], n, dir | ((data[size - 1] >> 3) & 6));
            if (!s) continue;
            StructReport sr;
            std::vector<const gr_slot *> order = walk_struct(s, n, 0, f, fo, sr);
            if (!sr.c02.empty()) { fprintf(stderr, "FUZZ-ORACLE growth: %s\n", sr.c02[0].c_str()); abort(); }
            std::string d = dump_seg(s, f, fo);
            // (no gr_seg_justify here: justification arithmetic on arbitrary attribute values is C19's subject and has an open known
            // finding, KF-C19-3; this target serves C01 / C02 / C14)
            if (t == 0 && order.size() >= 2) gr_slot_linebreak_before(const_cast<gr_slot *>(order[order.size() / 2]));
            gr_seg_destroy(s);
        }
    std::string rep = face_report(f);
    gr_font_destroy(fo);
    gr_face_destroy(f);
    if (!mon.outstanding.empty() || mon.bad_release || mon.double_release) { fprintf(stderr, "FUZZ-ORACLE table discipline\n"); abort(); }
    return 0;
}
