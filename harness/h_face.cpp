// C01 / C16 (and cross-observations for C02..C05): font loading on arbitrary table bytes, table borrow discipline.
// A case = (base font, mutation, face options 0..7, source {callbacks,file}, hostile table answers).
//   gr_make_face_with_ops through MON-TABLE (exact-size copies, freed on release), or gr_make_file_face on a scratch file;
//   if a face comes back: full query sweep, label queries, a few shapings with invariant walks, fonts; then destroy.
//   Oracles: sanitizer (MON-SAN), CPU budget, MON-TABLE conservation at the two quiescent points, no GET after make
//   on a preloadAll face, MON-ALLOC live set empty at quiescence.  H4 records which load-failure codes were tripped.
// Mutation kinds (--mut): fuzz (historical .fuzz records), sweep (boundary values at structure-derived offsets), tail (all 256 values at the last bytes of each table), cut (systematic truncations; last Silf pass cut at every byte with its end offset patched),
//   field (16/32-bit field edits at those offsets, singly and in adjacent pairs), random, trunc, dir, hostile (callback answers),
//   none (well-formed histories)
#include "common.hpp"
#include <algorithm>
using namespace vf;
static Stats st;
static std::string g_judge = "C01,C16";
static bool judged(const char *c) { return g_judge.find(c) != std::string::npos; }

static int g_last_error = -1;
extern "C" void gr_verif_load_error(int code) { g_last_error = code; }
static long g_rules_fired = 0;
extern "C" void gr_verif_rule_fired(const void *, unsigned int, const void *, const void *, unsigned int, unsigned int) { ++g_rules_fired; }
extern "C" void gr_verif_pass_loop(const void *, unsigned int max_rule_loop, size_t slots, long budget, unsigned long iters, int done) {
    double bound = double(max_rule_loop ? max_rule_loop : 1) * (double(slots) + double(budget > 0 ? budget : 0) + 2.0);
    if (double(iters) > bound) {
        OutLib _o;
        if (judged("C02")) V("loop-bound", "rule loop ran %lu iterations > maxRuleLoop %u x (slots %zu + budget %ld + 2)", iters, max_rule_loop, slots, budget);
        else st.add("xobs_loop_bound");
        if (!done) { fflush(stdout); write_case("TIMEOUTCASE"); _exit(4); }
    }
}

struct Interest { uint32_t off; uint8_t width; };          // byte offsets in the file worth sweeping, with field width guesses
// Structure-derived offsets (independent lenient parse; anything that does not fit is skipped).
static std::vector<uint32_t> interest_offsets(const std::vector<uint8_t> &d) {
    std::vector<uint32_t> v;
    auto add = [&](size_t start, size_t len) { for (size_t o = start; o < start + len && o < d.size(); ++o) v.push_back(uint32_t(o)); };
    std::vector<SfntDirEnt> dir = sfnt_dir(d);
    add(0, 12 + 16 * dir.size());
    std::map<uint32_t, SfntDirEnt> T;
    for (auto &e : dir) T[e.tag] = e;
    auto tag = [](const char *s) { return uint32_t(uint8_t(s[0])) << 24 | uint32_t(uint8_t(s[1])) << 16 | uint32_t(uint8_t(s[2])) << 8 | uint8_t(s[3]); };
    static const struct { const char *t; unsigned n; } heads[] = {{"Gloc", 24}, {"Glat", 48}, {"Feat", 96}, {"Sill", 64}, {"cmap", 96}, {"head", 54}, {"hhea", 36}, {"maxp", 8}, {"name", 48}, {"loca", 8}, {"hmtx", 8}, {"glyf", 12}};
    for (auto &h : heads) if (T.count(tag(h.t))) add(T[tag(h.t)].off, std::min<size_t>(h.n, T[tag(h.t)].len));
    if (T.count(tag("Gloc"))) { auto &g = T[tag("Gloc")]; if (g.len > 16) add(g.off + g.len - 8, 8); }
    if (T.count(tag("Silf"))) {
        SfntDirEnt s = T[tag("Silf")];
        const uint8_t *p = d.data() + s.off;
        if (s.len > 40) {
            uint32_t ver = rd32(p);
            size_t hdr = ver >= 0x30000 ? 12 : 8;
            unsigned nsub = rd16(p + (ver >= 0x30000 ? 8 : 4));
            add(s.off, hdr + 4 * std::min(nsub, 4u));
            for (unsigned si = 0; si < nsub && si < 2 && hdr + 4 * si + 4 <= s.len; ++si) {
                uint32_t sub = rd32(p + hdr + 4 * si);
                if (sub + 60 >= s.len) continue;
                add(s.off + sub, 160);
                size_t q = sub + (ver >= 0x30000 ? 8 : 0);
                unsigned numPasses = p[q + 6], numJ = p[q + 19];
                size_t r = q + 20 + 8 * numJ + 2 + 1 + 1 + 1 + 1 + 3;
                if (r + 2 >= s.len) continue;
                unsigned ncrit = p[r];
                r += 1 + 2 * ncrit + 1;
                if (r + 1 >= s.len) continue;
                unsigned nscr = p[r];
                r += 1 + 4 * nscr + 2;
                if (r + 4 * (numPasses + 1) + 8 >= s.len || numPasses > 128) continue;
                add(s.off + r, 4 * (numPasses + 1) + 8 + 12);
                size_t q2 = r + 4 * (numPasses + 1);
                unsigned npseudo = rd16(p + q2);
                size_t cm = q2 + 8 + 6 * size_t(npseudo);
                if (cm + 64 < s.len) {
                    add(s.off + cm, 4 + (ver >= 0x40000 ? 8 : 4) * 6);
                    // lookup-class headers: numIDs/searchRange/entrySelector/rangeShift of the first few lookup classes
                    unsigned ncls = rd16(p + cm), nlin = rd16(p + cm + 2);
                    size_t osz = ver >= 0x40000 ? 4 : 2;
                    for (unsigned c = nlin; c < ncls && c < nlin + 4; ++c) {
                        size_t oo = cm + 4 + osz * c;
                        if (oo + osz > s.len) break;
                        size_t co = osz == 4 ? rd32(p + oo) : rd16(p + oo);
                        if (cm + co + 12 < s.len) add(s.off + cm + co, 12);
                    }
                    add(s.off + cm + 4 + osz * std::min(ncls, 2000u), osz * 2);     // last offsets of the offset array
                }
                for (unsigned i = 0; i < numPasses; ++i) {
                    uint32_t ps = rd32(p + r + 4 * i), pe = rd32(p + r + 4 * i + 4);
                    if (sub + ps + 40 >= s.len || pe <= ps) continue;
                    add(s.off + sub + ps, 40 + 64);
                    size_t plen = std::min<size_t>(pe - ps, s.len - sub - ps);
                    // the code-offset arrays and the first bytes of each code block live towards the end of the pass
                    uint32_t pc = rd32(p + sub + ps + 8), ac = rd32(p + sub + ps + 16);
                    if (pc > ps && pc - ps < plen) add(s.off + sub + pc - 48, 64);
                    if (ac > ps && ac - ps < plen) add(s.off + sub + ac, 32);
                    uint64_t x = 0x1234567 + i;
                    for (int k = 0; k < 48; ++k) v.push_back(uint32_t(s.off + sub + ps + splitmix(x) % plen));
                }
            }
        }
    }
    std::sort(v.begin(), v.end());
    v.erase(std::unique(v.begin(), v.end()), v.end());
    return v;
}

// Monotone offset / location arrays the parsers relate element to element (class offsets, pass offsets, Gloc locations, rule-map /
// constraint / action offset arrays): the 'rel' mutation sets one element to another element's value +- a small step, which is
// how coordinated "lies" (an offset equal to the end offset, two equal neighbours, a crossing pair) are produced systematically.
struct OffArr { uint32_t off; uint8_t width; uint32_t count; const char *what; };
static std::vector<OffArr> offset_arrays(const std::vector<uint8_t> &d) {
    std::vector<OffArr> v;
    std::map<uint32_t, SfntDirEnt> T;
    for (auto &e : sfnt_dir(d)) T[e.tag] = e;
    auto tag = [](const char *s) { return uint32_t(uint8_t(s[0])) << 24 | uint32_t(uint8_t(s[1])) << 16 | uint32_t(uint8_t(s[2])) << 8 | uint8_t(s[3]); };
    if (T.count(tag("Gloc"))) {
        SfntDirEnt g = T[tag("Gloc")];
        if (g.len > 12) {
            unsigned flags = rd16(&d[g.off + 4]), na = rd16(&d[g.off + 6]);
            unsigned w = flags & 1 ? 4 : 2;
            size_t bytes = g.len - 8 - (flags & 2 ? 2 * size_t(na) : 0);
            if (bytes / w >= 2 && bytes <= g.len) v.push_back({g.off + 8, uint8_t(w), uint32_t(bytes / w), "Gloc locations"});
        }
    }
    if (T.count(tag("Silf"))) {
        SfntDirEnt s = T[tag("Silf")];
        const uint8_t *p = d.data() + s.off;
        if (s.len > 40) {
            uint32_t ver = rd32(p);
            size_t hdr = ver >= 0x30000 ? 12 : 8;
            uint32_t sub = rd32(p + hdr);
            size_t q = sub + (ver >= 0x30000 ? 8 : 0);
            if (q + 24 < s.len) {
                unsigned numPasses = p[q + 6], numJ = p[q + 19];
                size_t r = q + 20 + 8 * numJ + 2 + 1 + 1 + 1 + 1 + 3;
                if (r + 2 < s.len) {
                    r += 1 + 2 * size_t(p[r]) + 1;
                    if (r + 1 < s.len) {
                        r += 1 + 4 * size_t(p[r]) + 2;
                        if (numPasses <= 128 && r + 4 * (numPasses + 1) + 8 < s.len) {
                            v.push_back({uint32_t(s.off + r), 4, numPasses + 1, "Silf pass offsets"});
                            size_t q2 = r + 4 * (numPasses + 1);
                            unsigned npseudo = rd16(p + q2);
                            size_t cm = q2 + 8 + 6 * size_t(npseudo);
                            if (cm + 8 < s.len) {
                                unsigned ncls = rd16(p + cm);
                                unsigned w = ver >= 0x40000 ? 4 : 2;
                                if (cm + 4 + size_t(w) * (ncls + 1) < s.len) v.push_back({uint32_t(s.off + cm + 4), uint8_t(w), ncls + 1, "class offsets"});
                            }
                            for (unsigned i = 0; i < numPasses; ++i) {
                                uint32_t ps = rd32(p + r + 4 * i), pe = rd32(p + r + 4 * i + 4);
                                if (sub + ps + 48 >= s.len || pe <= ps) continue;
                                const uint8_t *P = p + sub + ps;
                                size_t plen = std::min<size_t>(pe - ps, s.len - sub - ps);
                                unsigned numRules = rd16(P + 4), numSuccess = rd16(P + 28), numRange = rd16(P + 32);
                                size_t o = 40 + 6 * size_t(numRange);
                                if (o + 2 * (numSuccess + 1) >= plen) continue;
                                v.push_back({uint32_t(s.off + sub + ps + o), 2, numSuccess + 1, "rule-map offsets"});
                                unsigned nent = rd16(P + o + 2 * numSuccess);
                                o += 2 * (size_t(numSuccess) + 1) + 2 * size_t(nent);
                                if (o + 2 >= plen) continue;
                                unsigned minpre = P[o], maxpre = P[o + 1];
                                if (maxpre < minpre) continue;
                                o += 2 + 2 * size_t(maxpre - minpre + 1) + 2 * size_t(numRules) + numRules + 1 + 2;
                                if (o + 4 * (size_t(numRules) + 1) >= plen) continue;
                                v.push_back({uint32_t(s.off + sub + ps + o), 2, numRules + 1, "constraint offsets"});
                                v.push_back({uint32_t(s.off + sub + ps + o + 2 * (numRules + 1)), 2, numRules + 1, "action offsets"});
                            }
                        }
                    }
                }
            }
        }
    }
    return v;
}


// Location of the last pass of the first Silf subtable (lenient parse): file offsets of the Silf directory entry's length field,
// of the oPasses[numPasses] word, and the pass's start relative to the subtable.  Used by the 'cut' mutation.
struct LastPass { bool ok; uint32_t silf_off, silf_len, dirlen_field, opasses_last_field, sub, ps, pe; };
static LastPass silf_last_pass(const std::vector<uint8_t> &d) {
    LastPass L = {false, 0, 0, 0, 0, 0, 0, 0};
    std::vector<SfntDirEnt> dir = sfnt_dir(d);
    for (size_t i = 0; i < dir.size(); ++i) {
        if (dir[i].tag != 0x53696C66u) continue;           // 'Silf'
        const SfntDirEnt &s = dir[i];
        if (s.len <= 40 || size_t(s.off) + s.len > d.size()) return L;
        const uint8_t *p = d.data() + s.off;
        uint32_t ver = rd32(p);
        size_t hdr = ver >= 0x30000 ? 12 : 8;
        unsigned nsub = rd16(p + (ver >= 0x30000 ? 8 : 4));
        if (nsub != 1) return L;                            // the cut must also be the end of the table
        uint32_t sub = rd32(p + hdr);
        size_t q = sub + (ver >= 0x30000 ? 8 : 0);
        if (q + 24 >= s.len) return L;
        unsigned numPasses = p[q + 6], numJ = p[q + 19];
        size_t r = q + 20 + 8 * numJ + 2 + 1 + 1 + 1 + 1 + 3;
        if (r + 2 >= s.len) return L;
        r += 1 + 2 * size_t(p[r]) + 1;
        if (r + 1 >= s.len) return L;
        r += 1 + 4 * size_t(p[r]) + 2;
        if (numPasses == 0 || numPasses > 128 || r + 4 * (numPasses + 1) + 8 >= s.len) return L;
        uint32_t ps = rd32(p + r + 4 * (numPasses - 1)), pe = rd32(p + r + 4 * numPasses);
        if (pe <= ps || sub + pe != s.len) return L;        // last pass must end where the table ends
        L.ok = true; L.silf_off = s.off; L.silf_len = s.len; L.dirlen_field = uint32_t(12 + 16 * i + 12);
        L.opasses_last_field = uint32_t(s.off + r + 4 * numPasses); L.sub = sub; L.ps = ps; L.pe = pe;
        return L;
    }
    return L;
}

struct FuzzRec { uint32_t off; uint8_t val; };
static std::vector<FuzzRec> read_fuzz(const std::string &path) {
    std::vector<FuzzRec> v;
    std::vector<uint8_t> d;
    if (!read_file(path, d)) return v;
    std::string cur;
    d.push_back('\n');
    for (uint8_t c : d) {
        if (c != '\n') { cur += char(c); continue; }
        // "rc,0X0005B4A1,113,Silf+0X15"
        size_t c1 = cur.find(','), c2 = c1 == std::string::npos ? c1 : cur.find(',', c1 + 1);
        if (c2 != std::string::npos) {
            unsigned long off = strtoul(cur.c_str() + c1 + 1, nullptr, 0), val = strtoul(cur.c_str() + c2 + 1, nullptr, 0);
            v.push_back({uint32_t(off), uint8_t(val)});
        }
        cur.clear();
    }
    return v;
}

static void query_sweep(gr_face *f, Rng &r, const std::vector<uint8_t> &fontbytes) {
    std::string rep = face_report(f);
    (void)rep;
    // absent / odd ids, NULL refs; plus every feature id the font's own Feat table lists (lenient independent parse): hidden features
    // are not enumerable through gr_face_fref but can be found by id and asked for labels
    std::vector<uint32_t> ids = {0, 1, 0x20, 0x20202020, 0xFFFFFFFFu, 0x6C616E67, 0x61626364, 0x7FFFFFFF};
    for (auto &e : sfnt_dir(fontbytes)) if (e.tag == 0x46656174u && e.len >= 12 && size_t(e.off) + e.len <= fontbytes.size()) {     // 'Feat'
        const uint8_t *p = &fontbytes[e.off];
        bool v2 = rd32(p) >= 0x20000;
        unsigned n = rd16(p + 4), rec = v2 ? 16 : 12;
        for (unsigned i = 0; i < n && i < 48 && 12 + rec * (i + 1) <= e.len; ++i) ids.push_back(v2 ? rd32(p + 12 + rec * i) : rd16(p + 12 + rec * i));
    }
    for (uint32_t id : ids) {
        const gr_feature_ref *fr = gr_face_find_fref(f, id);
        gr_fref_id(fr); gr_fref_n_values(fr); gr_fref_value(fr, 0); gr_fref_value(fr, 0xFFFF);
        uint16_t lang = 0x0409; uint32_t len = 0;
        void *l = LIB(gr_fref_label(fr, &lang, gr_utf16, &len)); if (l) LIBV(gr_label_destroy(l));
        l = LIB(gr_fref_value_label(fr, 0, &lang, gr_utf32, &len)); if (l) LIBV(gr_label_destroy(l));
        gr_feature_val *fv = LIB(gr_face_featureval_for_lang(f, id));
        if (fv) { gr_fref_feature_value(fr, fv); gr_fref_set_feature_value(fr, 1, fv); LIBV(gr_featureval_destroy(fv)); }
    }
    gr_face_fref(f, gr_face_n_fref(f));
    gr_face_fref(f, 0xFFFF);
    gr_face_lang_by_index(f, 0);
    // feature values: clone / set / get over every feature with boundary values
    unsigned nf = gr_face_n_fref(f);
    gr_feature_val *fv = LIB(gr_face_featureval_for_lang(f, 0));
    gr_feature_val *cl = LIB(gr_featureval_clone(fv));
    static const uint16_t vals[] = {0, 1, 2, 0x7FFF, 0x8000, 0xFFFF};
    for (unsigned i = 0; i < nf && i < 64; ++i) {
        const gr_feature_ref *fr = gr_face_fref(f, uint16_t(i));
        for (uint16_t v : vals) { gr_fref_set_feature_value(fr, v, cl); gr_fref_feature_value(fr, cl); }
        unsigned nv = gr_fref_n_values(fr);
        for (unsigned k = 0; k < nv && k < 8; ++k) {
            uint16_t lang = uint16_t(r.chance(0.5) ? 0x0409 : r.below(0x1000));
            uint32_t len = 0;
            gr_encform e = r.chance(0.33) ? gr_utf8 : r.chance(0.5) ? gr_utf16 : gr_utf32;
            void *l = LIB(gr_fref_value_label(fr, uint16_t(k), &lang, e, &len));
            if (l) LIBV(gr_label_destroy(l));
        }
    }
    gr_feature_val *nul = LIB(gr_featureval_clone(nullptr));
    LIBV(gr_featureval_destroy(nul));
    LIBV(gr_featureval_destroy(cl));
    LIBV(gr_featureval_destroy(fv));
    gr_face_info(f, 0); gr_face_info(f, 0x6C61746E);
}

static void shape_some(gr_face *f, Rng &r, const std::vector<std::vector<uint32_t>> &lines, const std::vector<uint32_t> &rep, int nshape) {
    gr_font *font = LIB(gr_make_font(r.chance(0.5) ? 12.0f : 0.37f, f));
    std::vector<std::pair<int, void *>> deferred;
    static const gr_encform encs[3] = {gr_utf8, gr_utf16, gr_utf32};
    for (int i = 0; i < nshape; ++i) {
        std::vector<uint32_t> t = (!lines.empty() && r.chance(0.6)) ? r.pick(lines) : random_text(r, rep, 24, true);
        if (t.size() > 48) t.resize(48);
        for (auto &c : t) if (c == 0 || !is_scalar(c)) c = 0xFFFD;
        int e = int(r.below(3)), dir = int(r.below(8));
        Text tx;
        tx.set(encs[e], t, false);
        const gr_font *fo = r.chance(0.5) ? font : nullptr;
        gr_feature_val *fv = r.chance(0.3) ? LIB(gr_face_featureval_for_lang(f, r.chance(0.5) && gr_face_n_languages(f) ? gr_face_lang_by_index(f, uint16_t(r.below(gr_face_n_languages(f)))) : 0)) : nullptr;
        gr_segment *s = LIB(gr_make_seg(fo, f, 0, fv, encs[e], tx.buf, t.size(), dir));
        st.add("segments");
        if (s) {
            StructReport sr;
            std::vector<const gr_slot *> order = walk_struct(s, t.size(), 0, f, fo, sr);
            for (auto &m : sr.c02) { if (judged("C02")) V("growth", "%s", m.c_str()); else st.add("xobs_c02"); }
            for (auto &m : sr.c03) { (void)m; st.add("xobs_c03"); }
            for (auto &m : sr.c04) { (void)m; st.add("xobs_c04"); }
            for (auto &m : sr.c05) { (void)m; st.add("xobs_c05"); }
            std::string d = dump_seg(s, f, fo);
            // (line break only; gr_seg_justify on mutated justification attributes is C19's subject - known finding KF-C19-3)
            if (order.size() >= 2 && r.chance(0.3)) LIBV(gr_slot_linebreak_before(const_cast<gr_slot *>(order[order.size() / 2])));
            st.add("segments_returned");
            // histories: destroy now, or later in a random ownership-respecting order (the face goes last)
            if (r.chance(0.5)) LIBV(gr_seg_destroy(s)); else deferred.push_back({0, s});
        }
        if (fv) { if (r.chance(0.5)) LIBV(gr_featureval_destroy(fv)); else deferred.push_back({1, fv}); }
    }
    deferred.push_back({2, font});
    for (size_t i = deferred.size(); i > 1; --i) std::swap(deferred[i - 1], deferred[r.below(uint32_t(i))]);
    for (auto &d : deferred) {
        if (d.first == 0) LIBV(gr_seg_destroy(static_cast<gr_segment *>(d.second)));
        else if (d.first == 1) LIBV(gr_featureval_destroy(static_cast<gr_feature_val *>(d.second)));
        else LIBV(gr_font_destroy(static_cast<gr_font *>(d.second)));
    }
    st.add("deferred_destroys", double(deferred.size()));
}

int main(int argc, char **argv) {
    Args a;
    a.parse(argc, argv);
    install_handlers();
    AllocMon::install();
    g_judge = a.get("judge", "C01,C16");
    std::string fontpath = a.get("font"), mut = a.get("mut", "random"), scratch = a.get("scratch", "/dev/shm");
    std::vector<uint8_t> base;
    if (!read_file(fontpath, base)) internal_fail("cannot read %s", fontpath.c_str());
    std::vector<std::vector<uint32_t>> lines;
    if (!a.get("texts").empty()) lines = text_lines(a.get("texts"), 300);
    std::vector<uint32_t> rep;
    {
        gr_face *f0 = gr_make_file_face(fontpath.c_str(), 0);
        if (f0) { rep = repertoire(f0, 0x3000); gr_face_destroy(f0); }
        else for (uint32_t c = 0x20; c < 0x7F; ++c) rep.push_back(c);
    }
    std::vector<uint32_t> interest = interest_offsets(base);
    std::vector<OffArr> arrays = offset_arrays(base);
    std::vector<FuzzRec> fuzz;
    if (mut == "fuzz") fuzz = read_fuzz(a.get("fuzzfile"));
    std::vector<SfntDirEnt> dir = sfnt_dir(base);
    std::vector<SfntDirEnt> gdir;                     // tables the library parses
    for (auto &e : dir) {
        char t[5] = {char(e.tag >> 24), char(e.tag >> 16), char(e.tag >> 8), char(e.tag), 0};
        static const char *want[] = {"Silf", "Glat", "Gloc", "Feat", "Sill", "cmap", "name", "head", "hhea", "maxp", "loca", "hmtx", "glyf"};
        for (const char *w : want) if (!strcmp(w, t) && e.len) gdir.push_back(e);
    }
    if (gdir.empty()) gdir = dir;
    static const uint8_t bvals[] = {0, 1, 0x7F, 0x80, 0xFF};
    int nshape = int(a.geti("shape", 3));
    long total = a.cases;
    if (mut == "fuzz") total = std::min<long>(a.cases, (long(fuzz.size()) - a.shard + a.nshards - 1) / a.nshards);
    if (mut == "sweep") total = std::min<long>(a.cases, (long(interest.size()) * 8 - a.shard + a.nshards - 1) / a.nshards);
    st.add("interest_offsets", 0);
    st.mx("max_interest_offsets", double(interest.size()));
    char tmpname[256];
    snprintf(tmpname, sizeof tmpname, "%s/vf_face_%d_%ld.ttf", scratch.c_str(), int(getpid()), a.shard);
    for (long k = 0; k < total; ++k) {
        if (!a.runs(k)) continue;
        long g = k * a.nshards + a.shard;
        Rng r(a.case_seed(k));
        std::vector<uint8_t> m = base;
        std::string desc;
        TableMon mon;
        int hostile_mode = 0;
        uint32_t hostile_tag = 0;
        // ---- mutation
        if (mut == "fuzz") { FuzzRec fr = fuzz[size_t(g)]; if (fr.off < m.size()) m[fr.off] = fr.val; desc = fmt("fuzz %u=%u", fr.off, fr.val); }
        else if (mut == "sweep") {
            uint32_t off = interest[size_t(g / 8)];
            int vi = int(g % 8);
            uint8_t v = m[off], nv = vi < 5 ? bvals[vi] : vi == 5 ? uint8_t(v + 1) : vi == 6 ? uint8_t(v - 1) : uint8_t(v ^ 0x80);
            m[off] = nv;
            desc = fmt("sweep %u=%u (was %u)", off, nv, v);
            if (nv == v) { st.add("skipped_identity"); continue; }
        } else if (mut == "field") {
            // 16/32-bit big-endian field edits at a structure-derived offset; in 40% of the cases a second, adjacent field is
            // edited consistently (offset/next, count/length, searchRange/rangeShift relations)
            uint32_t off = interest.empty() ? 0 : r.pick(interest);
            int w = r.chance(0.6) ? 2 : 4;
            if (off + 8 >= m.size()) off = 0;
            uint32_t cur = w == 2 ? rd16(&m[off]) : rd32(&m[off]);
            static const int32_t deltas[] = {1, -1, 2, -2, 4, -4, 0x100, -0x100};
            uint32_t nv;
            int32_t delta = 0;
            switch (r.below(6)) {
            case 0: nv = 0; break;
            case 1: nv = w == 2 ? 0xFFFF : 0xFFFFFFFFu; break;
            case 2: nv = w == 2 ? 0x7FFF : 0x7FFFFFFF; break;
            case 3: nv = w == 2 ? 0x8000 : 0x80000000u; break;
            default: delta = deltas[r.below(8)]; nv = cur + uint32_t(delta); break;
            }
            if (w == 2) wr16(&m[off], nv); else wr32(&m[off], nv);
            desc = fmt("field %u:%d %u->%u", off, w, cur, nv);
            if (r.chance(0.4)) {
                int rel = int(r.below(4));
                int64_t o2 = int64_t(off) + (rel == 0 ? w : rel == 1 ? 2 * w : rel == 2 ? 3 * w : -w);
                if (o2 >= 0 && size_t(o2) + 4 < m.size()) {
                    uint32_t c2 = w == 2 ? rd16(&m[o2]) : rd32(&m[o2]);
                    uint32_t n2 = r.chance(0.5) ? c2 + uint32_t(delta ? delta : 1) : c2 - uint32_t(delta ? delta : 1);
                    if (w == 2) wr16(&m[o2], n2); else wr32(&m[o2], n2);
                    desc += fmt(" + %lld:%d %u->%u", (long long)o2, w, c2, n2);
                }
            }
        } else if (mut == "rel") {
            if (arrays.empty()) { st.add("skipped_no_arrays"); continue; }
            // systematic part: for every array, element i <- element j + d for j in {last, i+1, i-1, first} and small d; then seeded
            const OffArr &A = arrays[size_t(g) % arrays.size()];
            long sub = g / long(arrays.size());
            static const int steps[] = {0, -1, 1, -2, 2, -4, 4, -6};
            uint32_t i = sub < long(A.count) * 32 ? uint32_t(sub / 32) : r.below(A.count);
            int jsel = int((sub / 8) % 4), dsel = int(sub % 8);
            uint32_t j = jsel == 0 ? A.count - 1 : jsel == 1 ? (i + 1 < A.count ? i + 1 : i) : jsel == 2 ? (i ? i - 1 : 0) : 0;
            if (sub >= long(A.count) * 32) { j = r.below(A.count); dsel = int(r.below(8)); }
            uint8_t *pi = &m[A.off + size_t(A.width) * i], *pj = &m[A.off + size_t(A.width) * j];
            uint32_t cur = A.width == 2 ? rd16(pi) : rd32(pi), src = A.width == 2 ? rd16(pj) : rd32(pj);
            uint32_t nv = src + uint32_t(steps[dsel]);
            if (A.width == 2) wr16(pi, nv); else wr32(pi, nv);
            desc = fmt("rel %s[%u] %u -> [%u]%+d = %u", A.what, i, cur, j, steps[dsel], nv);
            if (nv == cur) { st.add("skipped_identity"); continue; }
        } else if (mut == "tail") {
            // systematic: every value at the last byte(s) of every parsed table, Graphite tables first (a parser that reads a count /
            // opcode argument before checking the bound over-reads only when the structure ends exactly at the end of the table)
            static const char *order[] = {"Silf", "Glat", "Gloc", "Feat", "Sill", "name", "cmap", "hmtx", "loca", "glyf", "hhea", "head", "maxp"};
            std::vector<SfntDirEnt> td;
            for (const char *w : order) for (auto &e : gdir) { char t[5] = {char(e.tag >> 24), char(e.tag >> 16), char(e.tag >> 8), char(e.tag), 0}; if (!strcmp(w, t)) td.push_back(e); }
            if (td.empty()) { st.add("skipped_no_tables"); continue; }
            long per = 256 * long(td.size());
            if (g >= per * 4) { st.add("skipped_beyond_enumeration"); continue; }
            uint32_t back = uint32_t(g / per);
            const SfntDirEnt &e = td[size_t((g % per) / 256)];
            if (e.len <= back || size_t(e.off) + e.len > m.size()) { st.add("skipped_short_table"); continue; }
            uint32_t off = e.off + e.len - 1 - back;
            uint8_t v = m[off], nv = uint8_t(g % 256);
            m[off] = nv;
            desc = fmt("tail %c%c%c%c end-%u (file offset %u) = %u (was %u)", char(e.tag >> 24), char(e.tag >> 16), char(e.tag >> 8), char(e.tag), back, off, nv, v);
            if (nv == v) { st.add("skipped_identity"); continue; }
        } else if (mut == "cut") {
            // systematic truncation.  (a) the Silf table is cut at every byte of its last pass AND the pass-end offset is patched to the
            // cut, so the pass still "ends where the table ends" and only the pass's own internal bounds checks stand between its
            // readers and the end of the buffer; (b) every parsed table cut at each of its first 96 and last 48 bytes (directory length only)
            LastPass L = silf_last_pass(base);
            long na = L.ok ? long(std::min<uint32_t>(L.pe - L.ps, 1536)) : 0;
            if (g < na) {
                uint32_t k = uint32_t(g), newlen = L.sub + L.ps + k;
                if (size_t(L.silf_off) + L.silf_len == m.size()) m.resize(size_t(L.silf_off) + newlen);     // (file face: the table may be last in the file)
                wr32(&m[L.dirlen_field], newlen);
                wr32(&m[L.opasses_last_field], L.ps + k);
                desc = fmt("cut last Silf pass after %u of %u bytes (table length %u -> %u, pass end patched)", k, L.pe - L.ps, L.silf_len, newlen);
            } else {
                long h = g - na;
                size_t ti = size_t(h / 144);
                if (ti >= gdir.size()) { st.add("skipped_beyond_enumeration"); continue; }
                const SfntDirEnt &e = gdir[ti];
                uint32_t w = uint32_t(h % 144), newlen = w < 96 ? w : (e.len >= 144 - w ? e.len - (144 - w) : 0);
                if (newlen >= e.len) { st.add("skipped_identity"); continue; }
                for (size_t i = 0; i < dir.size(); ++i) if (dir[i].tag == e.tag) wr32(&m[12 + 16 * i + 12], newlen);
                desc = fmt("cut table %c%c%c%c to %u of %u bytes", char(e.tag >> 24), char(e.tag >> 16), char(e.tag >> 8), char(e.tag), newlen, e.len);
            }
        } else if (mut == "random") {
            int nm = r.range(1, 3);
            for (int i = 0; i < nm; ++i) {
                const SfntDirEnt &e = gdir[r.below(uint32_t(gdir.size()))];
                uint32_t bias = r.chance(0.34) ? r.below(std::min<uint32_t>(e.len, 2048)) : r.below(e.len);
                uint32_t off = e.off + bias;
                uint8_t v;
                switch (r.below(5)) { case 0: v = 0; break; case 1: v = 0xFF; break; case 2: v = uint8_t(m[off] + 1); break; case 3: v = uint8_t(m[off] ^ (1u << r.below(8))); break; default: v = uint8_t(r.next()); }
                m[off] = v;
                desc += fmt("%u=%u ", off, v);
            }
        } else if (mut == "trunc") {
            if (r.chance(0.3)) { size_t n = r.chance(0.5) ? r.below(uint32_t(m.size())) : m.size() - 1 - r.below(64); m.resize(n); desc = fmt("file truncated to %zu", n); }
            else {
                size_t idx = r.below(uint32_t(dir.size()));
                uint8_t *e = &m[12 + 16 * idx];
                uint32_t len = rd32(e + 12);
                uint32_t nl = r.chance(0.3) ? r.below(24) : r.chance(0.5) ? len - 1 - r.below(std::min<uint32_t>(len, 16)) : len + 1 + r.below(64);
                wr32(e + 12, nl);
                desc = fmt("table %.4s length %u->%u", reinterpret_cast<const char *>(e), len, nl);
            }
        } else if (mut == "dir") {
            size_t idx = r.below(uint32_t(dir.size()));
            uint8_t *e = &m[12 + 16 * idx];
            switch (r.below(5)) {
            case 0: e[0] ^= 0x20; desc = fmt("table %zu renamed (removed)", idx); break;
            case 1: wr32(e + 12, 0); desc = fmt("table %.4s zero length", reinterpret_cast<const char *>(e)); break;
            case 2: wr32(e + 8, uint32_t(m.size()) - r.below(8)); desc = fmt("table %.4s offset at file end", reinterpret_cast<const char *>(e)); break;
            case 3: wr32(e + 8, 0xFFFFFFF0u + r.below(16)); desc = fmt("table %.4s offset wraps", reinterpret_cast<const char *>(e)); break;
            default: { size_t j = r.below(uint32_t(dir.size())); memcpy(e + 8, &m[12 + 16 * j + 8], 8); desc = fmt("table %.4s points at table %zu's bytes", reinterpret_cast<const char *>(e), j); break; }
            }
        } else if (mut == "hostile") {
            static const char *tags[] = {"Silf", "Glat", "Gloc", "Feat", "Sill", "cmap", "name", "head", "hhea", "maxp", "loca", "hmtx", "glyf"};
            const char *t = tags[r.below(sizeof tags / sizeof tags[0])];
            hostile_tag = uint32_t(uint8_t(t[0])) << 24 | uint32_t(uint8_t(t[1])) << 16 | uint32_t(uint8_t(t[2])) << 8 | uint8_t(t[3]);
            hostile_mode = r.range(1, 3);
            desc = fmt("get_table('%s') answers %s", t, hostile_mode == 1 ? "NULL" : hostile_mode == 2 ? "length 0" : "3 bytes");
        } else desc = "none";
        unsigned opt = unsigned(r.below(8));
        bool use_file = r.chance(0.12) && hostile_mode == 0;
        bool with_release = !r.chance(0.1);
        set_case(k, "font=%s mut=%s opt=%u src=%s rel=%d :: %s", fontpath.c_str(), mut.c_str(), opt, use_file ? "file" : "ops", int(with_release), desc.c_str());
        cpu_budget_ms(30000);
        g_last_error = -1;
        long live0 = AllocMon::live;
        gr_face *f = nullptr;
        mon.reset(&m);
        mon.with_release = with_release;
        if (hostile_mode) mon.hostile[hostile_tag] = hostile_mode;
        if (use_file) {
            if (!write_file(tmpname, m.data(), m.size())) internal_fail("cannot write %s", tmpname);
            f = LIB(gr_make_file_face(tmpname, opt));
        } else {
            gr_face_ops ops = mon.ops();
            f = LIB(gr_make_face_with_ops(&mon, &ops, opt));
        }
        mon.made = true;
        st.add("loads");
        st.count("by_opt", std::to_string(opt));
        if (use_file) st.add("file_faces");
        if (!f) {
            st.add("load_failed");
            st.count("error_codes", std::to_string(g_last_error));
            // failed make_face: everything obtained must have been released, nothing may stay allocated
            if (!use_file && with_release && !mon.outstanding.empty()) {
                if (judged("C16")) V("table:outstanding-after-failed-make", "%zu table(s) still borrowed after gr_make_face returned NULL (error %d)", mon.outstanding.size(), g_last_error);
                else st.add("xobs_c16");
            }
            if (AllocMon::live != live0) {
                if (judged("C01") || judged("C16")) V("leak:after-failed-make", "%ld library allocations live after gr_make_face returned NULL (error %d)", AllocMon::live - live0, g_last_error);
                AllocMon::reset();
            }
        } else {
            st.add("load_ok");
            if (m != base) st.add("mutated_font_loaded");
            long gets_at_make = mon.gets;
            query_sweep(f, r, m);
            shape_some(f, r, lines, rep, nshape);
            if (!use_file && (opt & gr_face_preloadAll) == gr_face_preloadAll && mon.gets != gets_at_make) {
                if (judged("C16")) V(("table:get-after-make:" + mon.last_after_make_tag).c_str(), "%ld get_table call(s) after gr_make_face returned on a preloadAll face (last tag '%s')", mon.gets - gets_at_make, mon.last_after_make_tag.c_str());
                else st.add("xobs_c16");
            }
            LIBV(gr_face_destroy(f));
            if (!use_file && with_release && !mon.outstanding.empty()) {
                if (judged("C16")) V("table:outstanding-after-destroy", "%zu table(s) never released by gr_face_destroy", mon.outstanding.size());
                else st.add("xobs_c16");
            }
            if (AllocMon::live != live0) {
                if (judged("C01") || judged("C16")) V("leak:after-destroy", "%ld library allocations (%ld bytes) live after everything was destroyed", AllocMon::live - live0, AllocMon::live_bytes);
                AllocMon::reset();
            }
        }
        if (mon.bad_release || mon.double_release) {
            if (judged("C16")) V(mon.double_release ? "table:double-release" : "table:bad-release", "release_table called %ld times with an unknown and %ld times with an already released pointer", mon.bad_release, mon.double_release);
            else st.add("xobs_c16");
        }
        st.add("table_gets", double(mon.gets));
        st.add("table_releases", double(mon.rels));
        st.mx("max_outstanding_tables", double(mon.max_outstanding));
        for (auto &kv : mon.gets_by_tag) { char t[5] = {char(kv.first >> 24), char(kv.first >> 16), char(kv.first >> 8), char(kv.first), 0}; st.count("gets_by_tag", t, kv.second); }
        if (!with_release) mon.free_outstanding();
        cpu_budget_ms(0);
        if (k % 1499 == 0) printf("X {\"font\":%s,\"mut\":\"%s\",\"opt\":%u,\"src\":\"%s\",\"loaded\":%d,\"error\":%d,\"case\":%s}\n", jstr(fontpath.substr(fontpath.rfind('/') + 1)).c_str(), mut.c_str(), opt,
                                  use_file ? "file" : "ops", f ? 1 : 0, g_last_error, jstr(desc).c_str());
    }
    unlink(tmpname);
    st.add("rules_fired", double(g_rules_fired));
    st.add("lib_allocations", double(AllocMon::total));
    st.add("oracle_firings", double(g_viol));
    st.print();
    return 0;
}
