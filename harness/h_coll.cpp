// C17: collision fixing respects limits and its 'resolved' verdict is true.
//   pipeline   real shaping of the Awami fonts; the H3 hooks give, per fixing step, the neighbours at the positions the
//              fixer merged them, the shift before/after, the limit / offset / margin in force and the verdict
//   component  hand-built arrangements: a target + 1..6 neighbours with seeded origins, limits, margins, offsets and
//              shifts driven through ShiftCollider::initSlot -> mergeSlot* -> resolve
//   zones      random operation sequences on the interval set (initialise / exclude / exclude_with_margins / weighted)
// Oracles (geometry recomputed here from the glyph boxes, never by calling collider code):
//   limit clause     L well-formed, RTL run or LTR with x-symmetric limit: offset+shift inside L before => inside after
//   resolved clause  shift computed and collision-remains clear: the target octabox at its shifted position does not overlap
//                    (intersection area > 1 unit^2 AND all four projection overlaps > 0.5 unit) the octabox / sub-octaboxes of
//                    any merged, non-ignored neighbour within reach of the limit rectangle, at the position it was merged
//   zones            intervals sorted, disjoint, inside bounds; closest() never offers an excluded or out-of-bounds position
#include <iterator>
#include "common.hpp"
#include "inc/Main.h"
#include "inc/Segment.h"
#include "inc/Slot.h"
#include "inc/Collider.h"
#include "inc/GlyphCache.h"
#include "inc/Intervals.h"
using namespace vf;
using namespace graphite2;
static Stats st;

struct Oct { double xi, yi, xa, ya, si, sa, di, da; };
typedef std::vector<std::pair<double, double>> Poly;
static Poly clip(const Poly &p, double a, double b, double c) {          // keep a*x + b*y <= c
    Poly o;
    size_t n = p.size();
    for (size_t i = 0; i < n; ++i) {
        auto P = p[i], Q = p[(i + 1) % n];
        double fp = a * P.first + b * P.second - c, fq = a * Q.first + b * Q.second - c;
        if (fp <= 0) o.push_back(P);
        if ((fp < 0 && fq > 0) || (fp > 0 && fq < 0)) { double t = fp / (fp - fq); o.push_back({P.first + t * (Q.first - P.first), P.second + t * (Q.second - P.second)}); }
    }
    return o;
}
static double area(const Poly &p) {
    double a = 0;
    for (size_t i = 0; i < p.size(); ++i) { auto P = p[i], Q = p[(i + 1) % p.size()]; a += P.first * Q.second - Q.first * P.second; }
    return std::fabs(a) / 2;
}
static double inter(const Oct &a, const Oct &b) {
    Oct c = {std::fmax(a.xi, b.xi), std::fmax(a.yi, b.yi), std::fmin(a.xa, b.xa), std::fmin(a.ya, b.ya), std::fmax(a.si, b.si), std::fmin(a.sa, b.sa), std::fmax(a.di, b.di), std::fmin(a.da, b.da)};
    if (c.xi >= c.xa || c.yi >= c.ya || c.si >= c.sa || c.di >= c.da) return 0;
    Poly p = {{-1e7, -1e7}, {1e7, -1e7}, {1e7, 1e7}, {-1e7, 1e7}};
    p = clip(p, -1, 0, -c.xi); p = clip(p, 1, 0, c.xa); p = clip(p, 0, -1, -c.yi); p = clip(p, 0, 1, c.ya);
    p = clip(p, -1, -1, -c.si); p = clip(p, 1, 1, c.sa); p = clip(p, -1, 1, -c.di); p = clip(p, 1, -1, c.da);
    return p.size() < 3 ? 0 : area(p);
}
static double minproj(const Oct &a, const Oct &b) {
    return std::fmin(std::fmin(std::fmin(a.xa, b.xa) - std::fmax(a.xi, b.xi), std::fmin(a.ya, b.ya) - std::fmax(a.yi, b.yi)),
                     std::fmin(std::fmin(a.sa, b.sa) - std::fmax(a.si, b.si), std::fmin(a.da, b.da) - std::fmax(a.di, b.di)));
}
static Oct mk(const BBox &bb, const SlantBox &sb, double px, double py) { return Oct{bb.xi + px, bb.yi + py, bb.xa + px, bb.ya + py, sb.si + px + py, sb.sa + px + py, sb.di + px - py, sb.da + px - py}; }

static double g_worst_area = 0;
// the two clauses, shared by the pipeline and the component monitor
struct Nbr { const Slot *s; double x, y; bool ignore; bool ordered; };
static void judge_step(Segment *seg, const Slot *t, const Rect &L, const Position &o, float margin, const Position &s0, const Position &s1, bool computed, bool isCol, int dir,
                       const std::vector<Nbr> &nbrs, const char *what, bool limit_needs_resolved) {
    const GlyphCache &gc = seg->getFace()->glyphs();
    bool rtl = dir & 1;
    bool wf = L.bl.x <= L.tr.x && L.bl.y <= L.tr.y;
    bool dom = rtl || (L.bl.x == -L.tr.x);
    st.add("steps");
    if (!computed) return;
    st.add("steps_with_shift_computed");
    if (s1.x != s0.x || s1.y != s0.y) st.add("steps_that_moved");
    if (!wf) st.add("limit_not_wellformed");
    else if (!dom) st.add("out_of_domain_ltr_asymmetric");
    else {
        double px = o.x + s0.x, py = o.y + s0.y, qx = o.x + s1.x, qy = o.y + s1.y;
        bool in0 = px >= L.bl.x - 0.01 && px <= L.tr.x + 0.01 && py >= L.bl.y - 0.01 && py <= L.tr.y + 0.01;
        bool in1 = qx >= L.bl.x - 0.01 && qx <= L.tr.x + 0.01 && qy >= L.bl.y - 0.01 && qy <= L.tr.y + 0.01;
        if (!in0) st.add("started_outside_limit_recorded");
        else {
            st.add("limit_judged");
            // when no axis offers a free position resolve() returns (0,0) and the caller stores it as the new shift whatever the
            // limit says: with an accumulated offset that a narrower (rule-changed) limit no longer contains, that fallback
            // leaves offset + shift outside the rectangle (known finding, keyed separately)
            const bool zero_fallback = isCol && s1.x == 0 && s1.y == 0;
            if (!in1 && !(limit_needs_resolved && isCol))
                V(fmt("%s:limit%s", what, zero_fallback ? ":unresolved-zero-fallback" : "").c_str(), "offset (%g,%g) + shift (%g,%g) was inside the limit (%g,%g,%g,%g); after the step the shift is (%g,%g) and the offset lies outside; dir=%d", o.x, o.y, s0.x, s0.y, L.bl.x, L.bl.y, L.tr.x, L.tr.y, s1.x, s1.y, dir);
        }
    }
    if (isCol) { st.add("unresolved_steps"); return; }
    st.add("resolved_steps");
    unsigned short tg = t->gid();
    if (!gc.check(tg) || !dom) return;
    Oct T = mk(gc.getBoundingBBox(tg), gc.getBoundingSlantBox(tg), t->origin().x + s1.x, t->origin().y + s1.y);
    double ax = t->origin().x - o.x, ay = t->origin().y - o.y;
    Rect l2(L.bl - o, L.tr - o);
    for (auto &n : nbrs) {
        if (n.ignore) continue;
        unsigned short g = n.s->gid();
        if (!gc.check(g)) continue;
        const BBox &bb = gc.getBoundingBBox(g);
        double sx = n.x - ax, sy = n.y - ay;
        bool reach = (sx + bb.xa + margin >= l2.bl.x && sx + bb.xi - margin <= l2.tr.x) || (sy + bb.ya + margin >= l2.bl.y && sy + bb.yi - margin <= l2.tr.y);
        if (!reach) { st.add("neighbours_not_within_reach"); continue; }
        int ns = gc.numSubBounds(g);
        for (int j = 0; j < (ns ? ns : 1); ++j) {
            Oct N = ns ? mk(gc.getSubBoundingBBox(g, uint8(j)), gc.getSubBoundingSlantBox(g, uint8(j)), n.x, n.y) : mk(bb, gc.getBoundingSlantBox(g), n.x, n.y);
            st.add("pairs_judged");
            double a = inter(T, N), mp = minproj(T, N);
            if (ns && a > 1.0 && mp > 0.5) {
                // the fixer refines a collision with the neighbour's main octabox by its sub-boxes: a sub-box that sticks out of
                // the main octabox (inconsistent glyph data) is invisible to it by construction
                Oct M = mk(bb, gc.getBoundingSlantBox(g), n.x, n.y);
                double am = inter(T, M), mpm = minproj(T, M);
                if (getenv("VF_COLLDBG")) printf("D main octabox of neighbour: x[%g,%g] y[%g,%g] s[%g,%g] d[%g,%g] inter=%g minproj=%g\n", M.xi, M.xa, M.yi, M.ya, M.si, M.sa, M.di, M.da, am, mpm);
                if (!(am > 1.0 && mpm > 0.5)) { st.add("subbox_overlaps_outside_main_octabox_recorded"); continue; }
            }
            if (a > g_worst_area) g_worst_area = a;
            if (a > 1.0 && mp > 0.5 && getenv("VF_COLLDBG")) {
                SlotCollision *cn = seg->collisionInfo(n.s);
                printf("D T x[%g,%g] y[%g,%g] s[%g,%g] d[%g,%g] origin=(%g,%g) tflags=%x attachedT=%d\n", T.xi, T.xa, T.yi, T.ya, T.si, T.sa, T.di, T.da, t->origin().x, t->origin().y, seg->collisionInfo(t)->flags(), t->attachedTo() != 0);
                printf("D N x[%g,%g] y[%g,%g] s[%g,%g] d[%g,%g] merged-at=(%g,%g) origin-now=(%g,%g) shift-now=(%g,%g) nflags=%x attachedN=%d childOfT=%d sameBase=%d\n", N.xi, N.xa, N.yi, N.ya, N.si, N.sa, N.di, N.da, n.x, n.y, n.s->origin().x, n.s->origin().y,
                       cn->shift().x, cn->shift().y, cn->flags(), n.s->attachedTo() != 0, n.s->isChildOf(t), 0);
                printf("D whole-box N x[%g,%g] y[%g,%g]; nbrs=%zu s0=(%g,%g) s1=(%g,%g)\n", bb.xi + n.x, bb.xa + n.x, bb.yi + n.y, bb.ya + n.y, nbrs.size(), s0.x, s0.y, s1.x, s1.y);
            }
            // defect / design classes with their own keys: (1) a limit rectangle of zero width or height leaves zero-length
            // search ranges that no neighbour ever excludes; (2) a pair the fixer positions by sequence-order regions
            // (same cluster, matching sequence classes) is weighted, not excluded
            // (3) left-to-right run with a non-zero accumulated x offset: the engine mirrors one x bound of the limit from the
            // un-offset rectangle, so its reach pre-filter works on a rectangle displaced by the offset (same root cause as the
            // asymmetric-LTR-limit defect the property's quantifier already excludes)
            // (4) the accumulated offset + shift was already outside the limit rectangle when the step began (a rule changed the
            // limit between passes): the search ranges are built around a position they do not contain
            bool started_in = o.x + s0.x >= L.bl.x - 0.01 && o.x + s0.x <= L.tr.x + 0.01 && o.y + s0.y >= L.bl.y - 0.01 && o.y + s0.y <= L.tr.y + 0.01;
            // (1b) the same zero-length-range artefact arises when the step starts with the target exactly on an edge of its limit:
            // the diagonal ranges through that point collapse to a single position
            double px0 = o.x + s0.x, py0 = o.y + s0.y;
            bool on_edge = std::fabs(px0 - L.bl.x) < 0.01 || std::fabs(px0 - L.tr.x) < 0.01 || std::fabs(py0 - L.bl.y) < 0.01 || std::fabs(py0 - L.tr.y) < 0.01;
            const char *cls = (L.bl.x == L.tr.x || L.bl.y == L.tr.y) ? ":degenerate-limit" : (!(dir & 1) && o.x != 0) ? ":ltr-with-x-offset" : !started_in ? ":started-outside-limit"
                              : on_edge ? ":started-on-limit-edge" : n.ordered ? ":sequence-ordered-pair" : "";
            if (a > 1.0 && mp > 0.5 && n.ordered && !(L.bl.x == L.tr.x || L.bl.y == L.tr.y)) { st.add("overlaps_of_sequence_ordered_pairs_recorded"); continue; }
            if (a > 1.0 && mp > 0.5)
                V(fmt("%s:resolved-but-overlaps%s", what, cls).c_str(), "target gid %u at shift (%g,%g) reported resolved but overlaps neighbour gid %u (sub-box %d of %d) by %.3g unit^2 (min projection overlap %.3g); limit (%g,%g,%g,%g) offset (%g,%g) margin %g dir=%d",
                  tg, s1.x, s1.y, g, j, ns, a, mp, L.bl.x, L.bl.y, L.tr.x, L.tr.y, o.x, o.y, double(margin), dir);
        }
    }
}

// ---- pipeline monitor (H3 hooks)
// Workload diversity: the shipped Awami fonts give every glyph a collision margin of 150..200 units, so shallow overlaps whose cheapest
// escape is only a few units away never occur.  In a share of the pipeline cases the margin of every slot is overridden (as a font's
// collision.margin attribute could set it) with a small value before each pass runs.
static int g_margin_override = -1;
extern "C" void gr_verif_pass_begin(const void *seg_, unsigned int, const void *) {
    if (g_margin_override < 0) return;
    Segment *seg = const_cast<Segment *>(static_cast<const Segment *>(seg_));
    if (!seg->hasCollisionInfo()) return;
    for (Slot *s = seg->first(); s; s = s->next()) if (SlotCollision *c = seg->collisionInfo(s)) c->setMargin(uint16(g_margin_override));
}
static std::vector<Nbr> g_nbrs;
static const Slot *g_base = nullptr;
static const Slot *g_target = nullptr;
static Position g_target_origin;
extern "C" void gr_verif_coll_begin(const void *, const void *t_) {
    g_nbrs.clear();
    g_target = static_cast<const Slot *>(t_);
    g_target_origin = g_target->origin();
    g_base = g_target;
    while (g_base && g_base->attachedTo()) g_base = g_base->attachedTo();
}
extern "C" void gr_verif_coll_neighbour(const void *seg_, const void *n_, float sx, float sy, int is_exclusion) {
    if (is_exclusion) return;
    const Slot *n = static_cast<const Slot *>(n_);
    Segment *seg = const_cast<Segment *>(static_cast<const Segment *>(seg_));
    SlotCollision *cn = seg->collisionInfo(n);
    // would the fixer treat this pair by sequence order?  (transcribed condition: same cluster, target has a sequence class,
    // and the neighbour's class equals it (no proximity class) or equals the target's proximity class; order flags non-zero)
    bool ordered = false;
    if (g_target && g_base && cn) {
        SlotCollision *ct = seg->collisionInfo(g_target);
        bool sameCluster = n->isChildOf(g_base);
        if (ct && sameCluster && ct->seqClass() && ct->seqOrder()
            && ((ct->seqProxClass() == 0 && cn->seqClass() == ct->seqClass()) || (ct->seqProxClass() != 0 && cn->seqClass() == ct->seqProxClass())))
            ordered = true;
    }
    g_nbrs.push_back({n, double(n->origin().x) + sx, double(n->origin().y) + sy, cn ? cn->ignore() : true, ordered});
}
extern "C" void gr_verif_coll_step(const void *seg_, const void *t_, int, int computed, int is_col, float s0x, float s0y, int dir) {
    OutLib _o;
    Segment *seg = const_cast<Segment *>(static_cast<const Segment *>(seg_));
    const Slot *t = static_cast<const Slot *>(t_);
    SlotCollision *c = seg->collisionInfo(t);
    long v0 = g_viol;
    judge_step(seg, t, c->limit(), c->offset(), c->margin(), Position(s0x, s0y), c->shift(), computed != 0, is_col != 0, dir, g_nbrs, "pipeline", false);
    if (g_viol > v0 && getenv("VF_COLLDBG")) {
        printf("D target origin at step begin (%g,%g), at step end (%g,%g)\n", g_target_origin.x, g_target_origin.y, t->origin().x, t->origin().y);
        // replay the step with a fresh collider over the recorded neighbours (diagnosis only)
        struct XC : ShiftCollider {
            XC() : ShiftCollider(nullptr) {}
            void dumpz(const char *when) { for (int i = 0; i < 4; ++i) { printf("D   %s axis %d:", when, i); for (Zones::const_iterator z = _ranges[i].begin(); z != _ranges[i].end(); ++z) printf(" [%g,%g c=%g]", z->x, z->xm, z->c); printf("\n"); } }
        } xc;
        Position keep = c->shift(), s0(s0x, s0y);
        c->setShift(s0);
        std::vector<Nbr> copy = g_nbrs;
        xc.initSlot(seg, const_cast<Slot *>(t), c->limit(), c->margin(), c->marginWt(), s0, c->offset(), dir, nullptr);
        xc.dumpz("replay init");
        for (auto &n : copy) {
            SlotCollision *cn = seg->collisionInfo(n.s);
            bool h = false;
            xc.mergeSlot(seg, const_cast<Slot *>(n.s), cn, cn->shift(), false, n.s->isChildOf(g_base), h, false, nullptr);
            printf("D  replay merge gid %u origin (%g,%g) shift (%g,%g) merged-at (%g,%g) flags %x col=%d ordered=%d sameCluster=%d\n", n.s->gid(), n.s->origin().x, n.s->origin().y, cn->shift().x, cn->shift().y, n.x, n.y, cn->flags(), int(h), int(n.ordered), int(n.s->isChildOf(g_base)));
        }
        xc.dumpz("replay merged");
        bool ic;
        Position rp = xc.resolve(seg, ic, nullptr);
        printf("D  replay resolve -> (%g,%g) isCol=%d ; original verdict shift (%g,%g) isCol=%d\n", rp.x, rp.y, int(ic), keep.x, keep.y, is_col);
        c->setShift(keep);
    }
    g_nbrs.clear();
}

static float rf(Rng &r, float lo, float hi) { return lo + (hi - lo) * float(r.below(100001)) / 100000.f; }
static float coord(Rng &r, int mode) { if (mode == 0) return float(int(r.below(41)) - 20) * 25.f; return float(int(r.below(200001)) - 100000) / 97.f; }

int main(int argc, char **argv) {
    Args a;
    a.parse(argc, argv);
    install_handlers();
    std::string part = a.get("part", "pipeline"), fontpath = a.get("font");
    if (part == "zones") {
        for (long k = 0; k < a.cases; ++k) {
            if (!a.runs(k)) continue;
            Rng r(a.case_seed(k));
            int mode = int(r.below(2));
            Zones z;
            float lo = coord(r, mode), hi = coord(r, mode);
            if (lo > hi) std::swap(lo, hi);
            if (lo == hi) hi = lo + 1;
            bool sd = r.chance(0.5);
            float ml = float(r.below(200)), mw = float(r.below(50));
            if (sd) z.initialise<SD>(lo, hi, ml, mw, coord(r, mode)); else z.initialise<XY>(lo, hi, ml, mw, coord(r, mode));
            std::vector<std::pair<float, float>> removed;
            int nops = int(r.below(30));
            std::string hist = fmt("init%s[%g,%g]", sd ? "SD" : "XY", lo, hi);
            for (int i = 0; i < nops; ++i) {
                float x = coord(r, mode), y = coord(r, mode);
                if (x > y) std::swap(x, y);
                int op = int(r.below(4));
                st.add("zone_ops");
                if (op == 0) { z.exclude(x, y); removed.push_back({x, y}); appendf(hist, " ex[%g,%g]", x, y); }
                else if (op == 1) { int ax = int(r.below(4)); z.exclude_with_margins(x, y, ax); removed.push_back({x, y}); appendf(hist, " exm%d[%g,%g]", ax, x, y); }
                else { int ax = int(r.below(4)); z.weightedAxis(ax, x, y, float(r.below(10)), coord(r, mode), float(r.below(10)), coord(r, mode), coord(r, mode), float(r.below(1000)), r.chance(0.5)); appendf(hist, " w%d[%g,%g]", ax, x, y); }
                set_case(k, "zones %s", hist.size() > 400 ? hist.substr(hist.size() - 400).c_str() : hist.c_str());
                float last = -INFINITY;
                bool first = true;
                for (Zones::const_iterator it = z.begin(); it != z.end(); ++it) {
                    if (!(it->x <= it->xm)) V("zones:inverted", "interval [%g,%g]", it->x, it->xm);
                    if (!first && it->x < last) V("zones:unsorted-or-overlapping", "interval starts at %g before the previous one ends at %g", it->x, last);
                    if (it->x < lo || it->xm > hi) V("zones:outside-bounds", "interval [%g,%g] not inside [%g,%g]", it->x, it->xm, lo, hi);
                    last = it->xm;
                    first = false;
                    st.add("intervals_walked");
                }
                float cost, origin = coord(r, mode), p = z.closest(origin, cost);
                if (cost >= 0) {
                    st.add("offers");
                    if (p < lo || p > hi) V("zones:offer-outside-bounds", "closest(%g) offers %g outside [%g,%g]", origin, p, lo, hi);
                    bool inlist = false;
                    for (Zones::const_iterator it = z.begin(); it != z.end(); ++it) if (p >= it->x && p <= it->xm) inlist = true;
                    if (!inlist) V("zones:offer-not-free", "closest(%g) offers %g which lies in no free interval", origin, p);
                    for (auto &rm : removed) if (p > rm.first && p < rm.second) { V("zones:offer-excluded", "closest(%g) offers %g strictly inside the excluded interval (%g,%g)", origin, p, rm.first, rm.second); break; }
                } else st.add("no_offer");
            }
            st.add("zone_sequences");
            if (nops >= 2) st.add("nontrivial");
            if (k % 19997 == 0) printf("X {\"part\":\"zones\",\"ops\":\"%s\"}\n", hist.substr(0, 160).c_str());
        }
        st.add("oracle_firings", double(g_viol));
        st.print();
        return 0;
    }
    gr_face *f = gr_make_file_face(fontpath.c_str(), unsigned(a.geti("opt", 0)));
    if (!f) { st.add("fonts_not_loaded"); st.print(); return 0; }
    if (part == "pipeline") {
        std::vector<std::vector<uint32_t>> lines = text_lines(a.get("texts"), 4000);
        std::vector<uint32_t> rep = repertoire(f, 0x3000);
        static const int dirs[] = {1, 0, 3, 5, 7, 1, 1, 3};
        gr_font *font = gr_make_font(24, f);
        for (long k = 0; k < a.cases; ++k) {
            if (!a.runs(k)) continue;
            Rng r(a.case_seed(k));
            std::vector<uint32_t> t;
            int kind = int(r.below(10));
            if (!lines.empty() && kind < 6) {
                t = lines[size_t((k * a.nshards + a.shard)) % lines.size()];
                if (kind >= 4) for (size_t i = t.size(); i > 1; --i) std::swap(t[i - 1], t[r.below(uint32_t(i))]);       // permutation of a test line
            } else {
                // random strings over the Arabic-script part of the repertoire (where the collision rules live)
                std::vector<uint32_t> ar;
                for (uint32_t c : rep) if (c >= 0x600 && c < 0x780) ar.push_back(c);
                int n = r.range(2, 24);
                for (int i = 0; i < n; ++i) t.push_back(r.chance(0.1) ? 0x20 : r.pick(ar.empty() ? rep : ar));
            }
            int dir = dirs[r.below(8)];
            static const int small_margins[] = {0, 1, 2, 4, 8, 20};
            g_margin_override = r.chance(0.35) ? small_margins[r.below(6)] : -1;
            if (a.geti("fixdir", -1) >= 0 && !lines.empty()) { t = lines[size_t(k) % lines.size()]; dir = int(a.geti("fixdir", 1)); }    // witness replay
            if (a.geti("fixdir", -1) >= 0) g_margin_override = -1;
            if (g_margin_override >= 0) st.add("segments_with_small_margin_override");
            set_case(k, "pipeline font=%s dir=%d margin=%d text=%s", fontpath.c_str(), dir, g_margin_override, cps_str(t, 24).c_str());
            cpu_budget_ms(60000);
            Text tx;
            tx.set(gr_utf32, t, false);
            double steps0 = st.num["steps"];
            gr_segment *s = gr_make_seg(r.chance(0.3) ? font : nullptr, f, 0, nullptr, gr_utf32, tx.buf, t.size(), dir);
            if (s) gr_seg_destroy(s);
            cpu_budget_ms(0);
            st.add("segments");
            st.count("by_dir", std::to_string(dir));
            if (st.num["steps"] > steps0) st.add("nontrivial");
            if (k % 499 == 0) printf("X {\"part\":\"pipeline\",\"font\":%s,\"dir\":%d,\"text\":\"%s\"}\n", jstr(fontpath.substr(fontpath.rfind('/') + 1)).c_str(), dir, cps_str(t, 12).c_str());
        }
        gr_font_destroy(font);
    } else if (part == "component") {
        static const uint32_t text[] = {0x628, 0x67E, 0x679, 0x62B, 0x62C, 0x686, 0x62D, 0x62E, 0x633, 0x634, 0x635, 0x636, 0x637, 0x638, 0x639, 0x63A, 0x641, 0x642, 0x6A9, 0x6AF, 0x644, 0x645, 0x646, 0x6C1, 0x6BE, 0x6CC, 0x6D2};
        gr_segment *gs = gr_make_seg(nullptr, f, 0, nullptr, gr_utf32, text, sizeof text / sizeof text[0], 1);
        if (!gs) internal_fail("no segment");
        Segment *seg = gs;
        const GlyphCache &gc = seg->getFace()->glyphs();
        std::vector<Slot *> sl;
        for (Slot *s = seg->first(); s; s = s->next()) if (gc.check(s->gid()) && seg->collisionInfo(s)) sl.push_back(s);
        if (sl.size() < 4 || !seg->hasCollisionInfo()) { st.add("fonts_without_collision_info"); st.print(); return 0; }
        for (long k = 0; k < a.cases; ++k) {
            if (!a.runs(k)) continue;
            Rng r(a.case_seed(k));
            Slot *t = sl[r.below(uint32_t(sl.size()))];
            SlotCollision *c = seg->collisionInfo(t);
            // right-to-left runs with any limits; left-to-right runs only with x-symmetric limits (the property's domain)
            int dir = r.chance(0.8) ? 1 : 0;
            const BBox &tb = gc.getBoundingBBox(t->gid());
            float w = tb.xa - tb.xi + 50, h = tb.ya - tb.yi + 50;
            Position zero(0, 0);
            t->origin(Position(rf(r, -500, 500), rf(r, -500, 500)));
            float lx = rf(r, 0, 600);
            Rect L(Position(dir ? -rf(r, 0, 600) : -lx, -rf(r, 0, 600)), Position(dir ? rf(r, 0, 600) : lx, rf(r, 0, 600)));
            if (r.chance(0.05)) L = Rect(Position(-lx, 0), Position(lx, 0));             // degenerate (flat) limit
            float margin = rf(r, 0, 200), mwt = rf(r, 0, 50);
            Position off(rf(r, L.bl.x, L.tr.x), rf(r, L.bl.y, L.tr.y));
            if (r.chance(0.33)) off = zero;
            Position s0(0, 0);
            if (r.chance(0.33)) s0 = Position(rf(r, L.bl.x - off.x, L.tr.x - off.x), rf(r, L.bl.y - off.y, L.tr.y - off.y));
            c->setLimit(L); c->setMargin(uint16(margin)); c->setMarginWt(uint16(mwt)); c->setOffset(off); c->setShift(s0);
            c->setSeqClass(0); c->setSeqProxClass(0); c->setSeqOrder(0); c->setExclGlyph(0);
            set_case(k, "component font=%s target gid %u dir=%d limit (%g,%g,%g,%g) offset (%g,%g) shift (%g,%g) margin %g", fontpath.c_str(), t->gid(), dir, L.bl.x, L.bl.y, L.tr.x, L.tr.y, off.x, off.y, s0.x, s0.y, double(margin));
            struct XC : ShiftCollider {
                XC() : ShiftCollider(nullptr) {}
                void dumpz(const char *when) {
                    for (int i = 0; i < 4; ++i) { printf("D   %s axis %d:", when, i); for (Zones::const_iterator z = _ranges[i].begin(); z != _ranges[i].end(); ++z) printf(" [%g,%g sm=%g smx=%g c=%g]", z->x, z->xm, z->sm, z->smx, z->c); printf("\n"); }
                }
            } coll;
            const bool dbg = getenv("VF_COLLDBG") != nullptr;
            st.add("arrangements");
            if (!coll.initSlot(seg, t, c->limit(), c->margin(), c->marginWt(), s0, off, dir, nullptr)) { st.add("init_refused"); g_nbrs.clear(); continue; }
            if (dbg) { printf("D target gid %u origin (%g,%g) bbox x[%g,%g] y[%g,%g]\n", t->gid(), t->origin().x, t->origin().y, tb.xi, tb.xa, tb.yi, tb.ya); coll.dumpz("after init"); }
            int nn = r.range(1, 6);
            std::vector<Nbr> nb;
            bool collides = false;
            for (int j = 0; j < nn; ++j) {
                Slot *n = sl[r.below(uint32_t(sl.size()))];
                if (n == t) continue;
                bool dup = false;
                for (auto &q : nb) if (q.s == n) dup = true;
                if (dup) continue;
                SlotCollision *cn = seg->collisionInfo(n);
                cn->setFlags(cn->flags() & ~(SlotCollision::COLL_IGNORE | SlotCollision::COLL_ISSPACE));
                cn->setExclGlyph(0);
                cn->setShift(Position(rf(r, -50, 50), rf(r, -50, 50)));
                cn->setSeqClass(0);
                n->origin(Position(t->origin().x + rf(r, -2 * w, 2 * w), t->origin().y + rf(r, -2 * h, 2 * h)));
                nb.push_back({n, double(n->origin().x) + cn->shift().x, double(n->origin().y) + cn->shift().y, false, false});
                bool before = collides;
                coll.mergeSlot(seg, n, cn, cn->shift(), r.chance(0.5), false, collides, false, nullptr);
                if (dbg) { printf("D merged gid %u at (%g,%g) collides %d->%d nsub=%d\n", n->gid(), nb.back().x, nb.back().y, int(before), int(collides), int(gc.numSubBounds(n->gid()))); coll.dumpz("after merge"); }
            }
            g_nbrs.clear();
            bool isCol = false;
            Position s1 = coll.resolve(seg, isCol, nullptr);
            if (std::fabs(s1.x) >= 1e38f || std::fabs(s1.y) >= 1e38f) { st.add("no_position_offered"); continue; }
            judge_step(seg, t, L, off, c->margin(), s0, s1, true, isCol, dir, nb, "component", true);      // the margin the collider was given (an integer attribute)
            if (!nb.empty()) st.add("nontrivial");
            if (k % 9973 == 0) printf("X {\"part\":\"component\",\"target_gid\":%u,\"neighbours\":%zu,\"dir\":%d,\"limit\":[%g,%g,%g,%g],\"shift_after\":[%g,%g],\"resolved\":%d}\n", t->gid(), nb.size(), dir, L.bl.x, L.bl.y, L.tr.x, L.tr.y, s1.x, s1.y, int(!isCol));
        }
        gr_seg_destroy(gs);
    } else internal_fail("unknown part");
    gr_face_destroy(f);
    st.mx("max_residual_intersection_area_x1e6", g_worst_area * 1e6);
    st.add("oracle_firings", double(g_viol));
    st.print();
    return 0;
}
