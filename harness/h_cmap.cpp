// C13: characters map to the glyphs the cmap assigns, by either lookup path.
// Exhaustive over all 0x110000 code points per font: Face::cmap()[u] of a default face (direct lookup) and of a
// gr_face_cacheCmap face (cached lookup) against an independent cmap reader written from the OpenType spec;
// gr_face_is_char_supported == (cmap glyph != 0 or pseudo glyph != 0) with the pseudo map parsed independently from Silf;
// on fonts tagged --nosubst 1 the first slot of the one-character segment carries that glyph (pseudo -> its real glyph).
#include "common.hpp"
#include "inc/Main.h"
#include "inc/Face.h"
#include "inc/CmapCache.h"
using namespace vf;
static Stats st;

// ---- independent reference: {code point -> gid} following the subtable preference order the anchor names
static bool ref_cmap(const std::vector<uint8_t> &d, std::vector<uint16_t> &map, bool &has12) {
    map.assign(0x110000, 0);
    has12 = false;
    const uint8_t *c = nullptr;
    size_t cl = 0;
    for (auto &e : sfnt_dir(d)) if (e.tag == 0x636D6170) { c = d.data() + e.off; cl = e.len; }
    if (!c || cl < 4) return false;
    unsigned n = rd16(c + 2);
    std::map<std::pair<int, int>, uint32_t> subs;
    for (unsigned i = 0; i < n && 4 + 8 * (i + 1) <= cl; ++i) subs.insert({{rd16(c + 4 + 8 * i), rd16(c + 6 + 8 * i)}, rd32(c + 8 + 8 * i)});
    static const int bmp_pref[][2] = {{3, 1}, {0, 3}, {0, 2}, {0, 1}, {0, 0}}, smp_pref[][2] = {{3, 10}, {0, 4}};
    const uint8_t *t4 = nullptr, *t12 = nullptr;
    for (auto &p : bmp_pref) { auto it = subs.find({p[0], p[1]}); if (it != subs.end() && it->second + 16 <= cl && rd16(c + it->second) == 4) { t4 = c + it->second; break; } }
    for (auto &p : smp_pref) { auto it = subs.find({p[0], p[1]}); if (it != subs.end() && it->second + 16 <= cl && rd16(c + it->second) == 12) { t12 = c + it->second; break; } }
    if (!t4) return false;
    {
        unsigned length = rd16(t4 + 2), sc = rd16(t4 + 6) / 2;
        const uint8_t *end = t4 + 14, *start = t4 + 16 + 2 * sc, *delta = t4 + 16 + 4 * sc, *ro = t4 + 16 + 6 * sc;
        std::vector<char> done(0x10000, 0);
        for (unsigned i = 0; i < sc; ++i) {
            unsigned a = rd16(start + 2 * i), b = rd16(end + 2 * i), dl = rd16(delta + 2 * i), r = rd16(ro + 2 * i);
            for (unsigned u = a; u <= b && u <= 0xFFFF; ++u) {
                if (done[u]) continue;      // the first segment whose endCode >= u decides
                done[u] = 1;
                unsigned g;
                if (r == 0) g = (u + dl) & 0xFFFF;
                else {
                    size_t pos = size_t(16 + 6 * sc + 2 * i) + r + 2 * size_t(u - a);
                    if (pos + 2 > length) g = 0;
                    else { g = rd16(t4 + pos); if (g) g = (g + dl) & 0xFFFF; }
                }
                map[u] = uint16_t(g);
            }
            // code points below this segment's start and above the previous end are unmapped: mark them decided too
            for (unsigned u = (i ? rd16(end + 2 * (i - 1)) + 1u : 0u); u < a && u <= 0xFFFF; ++u) done[u] = 1;
        }
    }
    if (t12) {
        has12 = true;
        uint32_t ng = rd32(t12 + 12);
        std::vector<char> done(0x110000, 0);
        for (uint32_t i = 0; i < ng; ++i) {
            uint32_t a = rd32(t12 + 16 + 12 * i), b = rd32(t12 + 20 + 12 * i), g = rd32(t12 + 24 + 12 * i);
            for (uint64_t u = a < 0x10000 ? 0x10000 : a; u <= b && u <= 0x10FFFF; ++u)
                if (!done[u]) { done[u] = 1; map[u] = uint16_t(g + (u - a)); }
        }
    }
    return true;
}
// pseudo map of Silf subtable 0 (uncompressed tables only)
static bool ref_pseudo(const std::vector<uint8_t> &d, std::map<uint32_t, uint16_t> &ps) {
    const uint8_t *p = nullptr;
    size_t len = 0;
    for (auto &e : sfnt_dir(d)) if (e.tag == 0x53696C66) { p = d.data() + e.off; len = e.len; }
    if (!p || len < 40) return false;
    uint32_t ver = rd32(p);
    if (ver >= 0x50000 && (rd32(p + 4) >> 27) != 0) return false;       // compressed
    size_t hdr = ver >= 0x30000 ? 12 : 8;
    uint32_t sub = rd32(p + hdr);
    size_t q = sub + (ver >= 0x30000 ? 8 : 0);
    if (q + 24 > len) return false;
    unsigned numPasses = p[q + 6], numJ = p[q + 19];
    size_t r = q + 20 + 8 * numJ + 2 + 1 + 1 + 1 + 1 + 3;
    if (r + 2 > len) return false;
    r += 1 + 2 * size_t(p[r]) + 1;
    if (r + 1 > len) return false;
    r += 1 + 4 * size_t(p[r]) + 2;
    size_t q2 = r + 4 * (size_t(numPasses) + 1);
    if (q2 + 8 > len) return false;
    unsigned np = rd16(p + q2);
    for (unsigned i = 0; i < np && q2 + 8 + 6 * (i + 1) <= len; ++i) {
        uint32_t u = rd32(p + q2 + 8 + 6 * i);
        if (!ps.count(u)) ps[u] = rd16(p + q2 + 12 + 6 * i);          // first entry wins (linear search)
    }
    return true;
}

int main(int argc, char **argv) {
    Args a;
    a.parse(argc, argv);
    install_handlers();
    std::vector<std::string> flist;
    if (!a.get("fontlist").empty()) {
        std::vector<uint8_t> d;
        if (!read_file(a.get("fontlist"), d)) internal_fail("cannot read fontlist");
        std::string cur;
        for (uint8_t c : d) { if (c == '\n') { if (!cur.empty()) flist.push_back(cur); cur.clear(); } else cur += char(c); }
    } else flist.push_back(a.get("font"));
    bool nosubst = a.geti("nosubst", 0) != 0;
    for (size_t fi = 0; fi < flist.size(); ++fi) {
        if (long(fi % size_t(a.nshards)) != a.shard || !a.runs(long(fi))) continue;
        const std::string &path = flist[fi];
        set_case(long(fi), "cmap font=%s", path.c_str());
        std::vector<uint8_t> data;
        if (!read_file(path, data)) internal_fail("cannot read %s", path.c_str());
        std::vector<uint16_t> ref;
        bool has12 = false;
        if (!ref_cmap(data, ref, has12)) { st.add("fonts_without_reference"); continue; }
        std::map<uint32_t, uint16_t> pseudo;
        bool have_pseudo = ref_pseudo(data, pseudo);
        gr_face *fd = gr_make_file_face(path.c_str(), gr_face_default), *fc = gr_make_file_face(path.c_str(), gr_face_cacheCmap);
        if (!fd || !fc) { st.add("fonts_not_loaded"); if (fd) gr_face_destroy(fd); if (fc) gr_face_destroy(fc); continue; }
        st.add("fonts");
        if (has12) st.add("fonts_with_format12");
        const graphite2::Cmap &cd = fd->cmap(), &cc = fc->cmap();
        long mapped = 0, nd = 0, nc = 0, ns = 0;
        std::string exd, exc, exs;
        for (uint32_t u = 0; u < 0x110000; ++u) {
            uint16_t want = ref[u], gd = cd[u], gc = cc[u];
            if (want) ++mapped;
            if (gd != want && ++nd <= 3) exd += fmt(" U+%X direct=%u ref=%u", u, gd, want);
            if (gc != want && ++nc <= 3) exc += fmt(" U+%X cached=%u ref=%u", u, gc, want);
            if (have_pseudo) {
                auto it = pseudo.find(u);
                int supp = (want != 0) || (it != pseudo.end() && it->second != 0);
                if (gr_face_is_char_supported(fd, u, 0) != supp || gr_face_is_char_supported(fc, u, 0) != supp) if (++ns <= 3) exs += fmt(" U+%X", u);
            }
        }
        st.add("lookups", 2.0 * 0x110000);
        st.add("mapped_code_points", double(mapped));
        if (!have_pseudo) st.add("pseudo_clause_skipped_compressed_silf");
        else st.add("pseudo_entries", double(pseudo.size()));
        if (nd) V("direct", "%ld code points disagree with the reference:%s", nd, exd.c_str());
        if (nc) V(nd ? "cached" : "cached-vs-direct", "%ld code points disagree with the reference%s:%s", nc, nd ? "" : " (and with the direct lookup)", exc.c_str());
        if (ns) V("is-char-supported", "%ld code points:%s", ns, exs.c_str());
        // out-of-range arguments answer "unmapped"
        static const uint32_t beyond[] = {0x110000, 0x110001, 0x7FFFFFFF, 0x80000000u, 0xFFFFFFFFu, 0x1FFFFF};
        for (uint32_t u : beyond) if (cc[u] != 0 || gr_face_is_char_supported(fc, u, 0) != (pseudo.count(u) ? 1 : 0)) V("beyond-unicode", "usv=%x maps to a glyph on the cached face", u);
        // initial glyph of each slot: one-character segments on fonts without substitution passes
        if (nosubst) {
            // glyphs with outlines (maxp); ids at or above it are attribute-only pseudo glyphs whose slot shows their real glyph
            unsigned ng = 0;
            for (auto &e : sfnt_dir(data)) if (e.tag == 0x6D617870 && e.len >= 6) ng = rd16(data.data() + e.off + 4);
            std::map<uint32_t, uint16_t> real;
            {
                std::vector<uint8_t> sc;
                std::string side = path.substr(0, path.size() - 4) + ".pseudo";
                if (read_file(side, sc)) { sc.push_back(0); const char *q = reinterpret_cast<const char *>(sc.data()); unsigned u, g, rg; int used; while (sscanf(q, "%u %u %u%n", &u, &g, &rg, &used) == 3) { real[u] = uint16_t(rg); q += used; } }
            }
            Rng r(a.case_seed(long(fi)));
            std::vector<uint32_t> sample;
            for (uint32_t u = 1; u < 0x110000; ++u) if (ref[u] && (sample.size() < 400 || r.chance(0.02))) { sample.push_back(u); if (u + 1 < 0x110000) sample.push_back(u + 1); }
            for (auto &kv : pseudo) sample.push_back(kv.first);
            static const uint32_t extra[] = {0xFFFF, 0xFFFE, 0x10000, 0x10FFFF, 0x41, 0xE000};
            for (uint32_t u : extra) sample.push_back(u);
            for (uint32_t u : sample) {
                if (!is_scalar(u)) continue;
                for (int fc_i = 0; fc_i < 2; ++fc_i) {
                    gr_face *f = fc_i ? fc : fd;
                    uint32_t txt[1] = {u};
                    gr_segment *s = gr_make_seg(nullptr, f, 0, nullptr, gr_utf32, txt, 1, 0);
                    st.add("one_char_segments");
                    if (!s) continue;
                    const gr_slot *p = gr_seg_first_slot(s);
                    uint16_t want = ref[u];
                    if (!want && pseudo.count(u)) want = real.count(u) ? real[u] : 0xFFFF;
                    if (p && want != 0xFFFF && want < ng && gr_slot_gid(p) != want) V("first-slot-glyph", "U+%X on the %s face: slot gid %u, cmap/pseudo says %u", u, fc_i ? "cached" : "default", gr_slot_gid(p), want);
                    gr_seg_destroy(s);
                }
            }
        }
        gr_face_destroy(fd);
        gr_face_destroy(fc);
        if (fi % 7 == 0) printf("X {\"font\":%s,\"mapped\":%ld,\"format12\":%d,\"pseudos\":%zu,\"code_points\":1114112}\n", jstr(path.substr(path.rfind('/') + 1)).c_str(), mapped, int(has12), pseudo.size());
    }
    st.add("oracle_firings", double(g_viol));
    st.print();
    return 0;
}
