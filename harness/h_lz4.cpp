// C14(b,c): the LZ4 block decoder is exact and bounded; lying compressed-table headers do not load.
//   decode   lz4::decompress(in, n, out, m) on exact-size heap buffers (ASan) for valid encodings from a family of
//            encoders (greedy, random match choice / length, forced overlapping matches, long length-extension runs),
//            byte mutations, truncations, appended bytes and random blocks, with announced sizes exact, +-1, x2.
//            Oracle = a deliberately lenient reference block decoder written from the format description:
//              r > m                                                     -> violation
//              r >= 0: the r output bytes must be the first r bytes the reference produces      (prefix consistency)
//              r == m (the only value for which the table is kept): the reference must decode the whole input to
//                      exactly those m bytes; the "lenient tail" class (final literal run taken at a token whose
//                      sequence fails the end-of-block test) is keyed separately (known finding)
//              a valid encoding that shrinks the data (>= 13 bytes, shorter than the plaintext) must be accepted
//   mustfail every font of --fontlist must be refused by gr_make_file_face
#include "common.hpp"
#include "inc/Decompressor.h"
using namespace vf;
static Stats st;
typedef std::vector<uint8_t> Bytes;

// ---- reference: decodes as far as the format allows; marks after every token the output that would result if that
// token's literal run were the last thing in the block
struct RefResult { Bytes out; bool wellformed; std::vector<size_t> literal_end_lengths; };
static RefResult ref_decode(const Bytes &s) {
    RefResult r;
    r.wellformed = false;
    size_t i = 0, n = s.size();
    while (i < n) {
        unsigned tok = s[i++];
        size_t ll = tok >> 4;
        if (ll == 15) { uint8_t b; do { if (i >= n) return r; b = s[i++]; ll += b; } while (b == 255); }
        if (i + ll > n) { r.out.insert(r.out.end(), s.begin() + long(i), s.end()); return r; }
        r.out.insert(r.out.end(), s.begin() + long(i), s.begin() + long(i + ll));
        r.literal_end_lengths.push_back(r.out.size());
        i += ll;
        if (i >= n) { r.wellformed = true; return r; }
        if (i + 2 > n) return r;
        size_t off = s[i] | size_t(s[i + 1]) << 8;
        i += 2;
        size_t ml = tok & 15;
        if (ml == 15) { uint8_t b; do { if (i >= n) return r; b = s[i++]; ml += b; } while (b == 255); }
        ml += 4;
        if (off == 0 || off > r.out.size()) return r;
        if (r.out.size() + ml > (1u << 26)) return r;
        for (size_t k = 0; k < ml; ++k) r.out.push_back(r.out[r.out.size() - off]);
    }
    r.wellformed = true;
    return r;
}
static void emit(Bytes &o, const uint8_t *lit, size_t ll, size_t off, size_t ml) {
    o.push_back(uint8_t((ll < 15 ? ll : 15) << 4 | (ml ? (ml - 4 < 15 ? ml - 4 : 15) : 0)));
    if (ll >= 15) { size_t r = ll - 15; while (r >= 255) { o.push_back(255); r -= 255; } o.push_back(uint8_t(r)); }
    o.insert(o.end(), lit, lit + ll);
    if (ml) {
        o.push_back(uint8_t(off)); o.push_back(uint8_t(off >> 8));
        if (ml - 4 >= 15) { size_t r = ml - 4 - 15; while (r >= 255) { o.push_back(255); r -= 255; } o.push_back(uint8_t(r)); }
    }
}
// valid block: last 5 bytes literals, last match starts >= 12 bytes before the end
static Bytes encode(const Bytes &d, Rng &r, int mode) {
    Bytes o;
    size_t n = d.size(), i = 0, anchor = 0;
    if (mode == 3 || n < 13) { emit(o, d.data(), n, 0, 0); return o; }
    std::map<uint32_t, std::vector<size_t>> table;
    while (i + 12 < n) {
        uint32_t key = rd32(&d[i]);
        std::vector<size_t> &cand = table[key];
        size_t use = size_t(-1);
        if (mode == 2) for (size_t off = 1; off < 8 && off <= i; ++off) if (rd32(&d[i - off]) == key && r.chance(0.9)) { use = i - off; break; }
        if (use == size_t(-1) && !cand.empty()) {
            size_t c = mode == 0 ? cand.back() : cand[r.below(uint32_t(cand.size()))];
            if (i - c <= 65535 && (mode == 0 || r.chance(0.85))) use = c;
        }
        cand.push_back(i);
        if (use == size_t(-1)) { ++i; continue; }
        size_t ml = 4;
        while (i + ml < n - 5 && d[use + ml] == d[i + ml]) ++ml;
        if (mode == 1 && ml > 4 && r.chance(0.5)) ml = 4 + r.below(uint32_t(ml - 3));
        emit(o, &d[anchor], i - anchor, i - use, ml);
        i += ml;
        anchor = i;
    }
    emit(o, &d[anchor], n - anchor, 0, 0);
    return o;
}
static size_t rr_guard(int ret, size_t osz) { return ret < 0 ? 0 : (size_t(ret) < osz ? size_t(ret) : osz); }
static Bytes plaintext(Rng &r) {
    static const size_t sizes[] = {13, 14, 16, 20, 40, 100, 300, 1000, 3000, 20000, 70000};
    size_t n = sizes[r.below(r.chance(0.03) ? 11 : 9)];
    Bytes p(n);
    switch (r.below(5)) {
    case 0: for (auto &b : p) b = uint8_t(r.below(4)); break;
    case 1: { uint8_t v = uint8_t(r.next()); for (auto &b : p) b = v; break; }            // one long run: 255-chains in the match length
    case 2: { size_t w = 1 + r.below(9); Bytes pat(w); for (auto &b : pat) b = uint8_t(r.next()); for (size_t i = 0; i < n; ++i) p[i] = pat[i % w]; break; }
    case 3: for (size_t i = 0; i < n; ++i) p[i] = r.chance(0.2) ? uint8_t(r.next()) : uint8_t(65 + i % 7); break;
    default: { for (auto &b : p) b = uint8_t(r.next()); size_t at = n > 400 ? r.below(uint32_t(n - 300)) : 0; for (size_t i = at; i < n && i < at + 300 && n > 40; ++i) p[i] = p[i % 17]; break; }   // long literal runs then repeats
    }
    return p;
}

int main(int argc, char **argv) {
    Args a;
    a.parse(argc, argv);
    install_handlers();
    std::string part = a.get("part", "decode");
    if (part == "mustfail") {
        std::vector<uint8_t> d;
        if (!read_file(a.get("fontlist"), d)) internal_fail("cannot read fontlist");
        std::string cur;
        long k = 0;
        d.push_back('\n');
        for (uint8_t c : d) {
            if (c != '\n') { cur += char(c); continue; }
            if (!cur.empty()) {
                set_case(k++, "mustfail %s", cur.c_str());
                for (unsigned opt : {0u, 6u}) {
                    gr_face *f = gr_make_file_face(cur.c_str(), opt);
                    st.add("mustfail_loads");
                    if (f) { V("header-lie-accepted", "%s loads (options %u) although its compressed-table header lies or its payload does not shrink", cur.c_str(), opt); gr_face_destroy(f); }
                }
            }
            cur.clear();
        }
        st.print();
        return 0;
    }
    for (long k = 0; k < a.cases; ++k) {
        if (!a.runs(k)) continue;
        Rng r(a.case_seed(k));
        Bytes p = plaintext(r);
        int mode = int(r.below(4));
        if (mode == 3 && r.chance(0.7)) mode = int(r.below(3));
        Bytes e = encode(p, r, mode);
        int mut = int(r.below(8));
        const char *mname = "valid";
        if (mut == 1 && !e.empty()) { mname = "bytes"; for (int i = r.range(1, 3); i > 0; --i) e[r.below(uint32_t(e.size()))] = uint8_t(r.next()); }
        else if (mut == 2 && e.size() > 2) { mname = "truncated"; e.resize(1 + r.below(uint32_t(e.size() - 1))); }
        else if (mut == 3) { mname = "appended"; for (int i = r.range(1, 7); i > 0; --i) e.push_back(uint8_t(r.next())); }
        else if (mut == 4) { mname = "random"; e.resize(size_t(r.range(1, 60))); for (auto &b : e) b = uint8_t(r.next()); }
        else if (mut == 5 && e.size() > 4) { mname = "token"; size_t at = r.below(uint32_t(e.size())); e[at] = r.chance(0.5) ? 0xFF : uint8_t(e[at] | 0x0F); }   // provoke length-extension chains
        else if (mut == 6 && e.size() > 8) { mname = "offset"; size_t at = 1 + r.below(uint32_t(e.size() - 2)); e[at] = 0; e[at + 1] = r.chance(0.5) ? 0 : 0xFF; }
        size_t osz;
        switch (r.below(7)) { case 0: osz = p.size() - 1; break; case 1: osz = p.size() + 1; break; case 2: osz = 2 * p.size(); break; case 3: osz = e.size() + 1; break; default: osz = p.size(); break; }
        set_case(k, "lz4 plain=%zu mode=%d mut=%s in=%zu announced=%zu head=%s", p.size(), mode, mname, e.size(), osz, hexs(e.data(), e.size() < 24 ? e.size() : 24).c_str());
        uint8_t *in = static_cast<uint8_t *>(malloc(e.size() ? e.size() : 1)), *out = static_cast<uint8_t *>(malloc(osz ? osz : 1));
        if (!e.empty()) memcpy(in, e.data(), e.size());
        memset(out, 0xAA, osz);
        int ret = lz4::decompress(in, e.size(), out, osz);
        st.add("decodes");
        st.count("by_mutation", mname);
        RefResult ref = ref_decode(e);
        if (ret < 0) {
            st.add("rejected");
            bool valid_shrinking = ref.wellformed && ref.out == p && mut == 0 && e.size() < p.size() && e.size() >= 13 && osz == p.size();
            if (valid_shrinking) V("valid-rejected", "a valid encoding (%zu -> %zu bytes, mode %d) of the plaintext is refused", p.size(), e.size(), mode);
            if (mut == 0 && !(e.size() < p.size() && e.size() >= 13)) st.add("rejected_nonshrinking_as_expected");
        } else {
            size_t rr = size_t(ret);
            if (rr > osz) V("overrun-return", "returned %d > announced size %zu", ret, osz);
            else if (rr > ref.out.size() || memcmp(out, ref.out.data(), rr) != 0) V("prefix", "returned %d bytes that are not the first %d bytes the reference decoder produces (reference has %zu)", ret, ret, ref.out.size());
            else {
                st.add("prefix_consistent");
                if (rr == osz) {
                    if (ref.wellformed && ref.out.size() == rr) { st.add("accepted_exact"); if (mut == 0) st.add("accepted_valid"); }
                    else {
                        bool lenient = false;
                        for (size_t L : ref.literal_end_lengths) if (L == rr) lenient = true;
                        if (lenient) V("lenient-tail", "returns the announced size %zu although the block is malformed after its final literal run (reference: well-formed=%d, %zu bytes)", osz, int(ref.wellformed), ref.out.size());
                        else V("accepted-malformed", "returns the announced size %zu but the reference decoder does not decode the input to exactly those bytes (well-formed=%d, %zu bytes)", osz, int(ref.wellformed), ref.out.size());
                    }
                } else st.add("returned_other_size_face_would_fail");
            }
        }
        for (size_t i = rr_guard(ret, osz); i < osz; ++i) if (out[i] != 0xAA) { st.add("bytes_written_beyond_return"); break; }
        free(in);
        free(out);
        if (k % 2999 == 0) printf("X {\"plain\":%zu,\"mode\":%d,\"mutation\":\"%s\",\"in\":%zu,\"announced\":%zu,\"ret\":%d}\n", p.size(), mode, mname, e.size(), osz, ret);
    }
    st.add("oracle_firings", double(g_viol));
    st.print();
    return 0;
}
