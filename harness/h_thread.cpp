// C09: a preloaded face and unhinted fonts shared by concurrent shapers (built with -fsanitize=thread).
//   reference dumps are produced single-threaded on a DIFFERENT face object (the shared face stays cold);
//   N threads start behind a barrier, each shapes its own list of texts (same lists rotated / disjoint lists),
//   queries features and labels on the shared face, destroys its own segments; yields between API calls.
// Oracles: ThreadSanitizer reports (counted by the orchestrator from stderr), an atomic counter of table callbacks
// after gr_make_face returned, per-thread dumps == sequential reference dumps.
//   --control 1 runs the same workload on a gr_face_default (lazy) face: TSan MUST fire there (sensitivity control).
#include "common.hpp"
#include <atomic>
#include <thread>
#include <pthread.h>
#include <sched.h>
using namespace vf;
static Stats st;

struct Tables {
    std::map<uint32_t, std::pair<void *, size_t>> t;       // exact-size copies made before any thread starts
    std::atomic<long> gets{0}, gets_after{0}, rels{0};
    std::atomic<int> armed{0};
    void load(const std::vector<uint8_t> &d) {
        for (auto &e : sfnt_dir(d)) {
            void *c = malloc(e.len ? e.len : 1);
            memcpy(c, d.data() + e.off, e.len);
            t[e.tag] = {c, e.len};
        }
    }
    ~Tables() { for (auto &kv : t) free(kv.second.first); }
    static const void *get(const void *h, unsigned int name, size_t *len) {
        Tables *m = const_cast<Tables *>(static_cast<const Tables *>(h));
        ++m->gets;
        if (m->armed.load()) ++m->gets_after;
        auto it = m->t.find(name);          // read-only after load()
        if (it == m->t.end()) { if (len) *len = 0; return nullptr; }
        if (len) *len = it->second.second;
        return it->second.first;
    }
    static void rel(const void *h, const void *) { ++const_cast<Tables *>(static_cast<const Tables *>(h))->rels; }
};

struct Job { std::vector<uint32_t> text; int dir; int fontidx; int enc; };

static std::string run_job(const gr_face *f, const std::vector<gr_font *> &fonts, const Job &j) {
    static const gr_encform encs[3] = {gr_utf8, gr_utf16, gr_utf32};
    Text tx;
    tx.set(encs[j.enc], j.text, false);
    const gr_font *font = j.fontidx < 0 ? nullptr : fonts[size_t(j.fontidx)];
    gr_segment *s = gr_make_seg(font, f, 0, nullptr, encs[j.enc], tx.buf, j.text.size(), j.dir);
    std::string d = dump_seg(s, f, font);
    if (s) gr_seg_destroy(s);
    return d;
}

int main(int argc, char **argv) {
    Args a;
    a.parse(argc, argv);
    install_handlers();
    std::string fontpath = a.get("font");
    int N = int(a.geti("threads", 8)), reps = int(a.geti("reps", 3)), njobs = int(a.geti("jobs", 120));
    bool control = a.geti("control", 0) != 0;
    unsigned opt = control ? gr_face_default : gr_face_preloadAll;
    std::vector<uint8_t> data;
    if (!read_file(fontpath, data)) internal_fail("cannot read font");
    std::vector<std::vector<uint32_t>> lines;
    if (!a.get("texts").empty()) lines = text_lines(a.get("texts"), 2000);
    set_case(0, "threads font=%s N=%d control=%d", fontpath.c_str(), N, int(control));
    // ---- reference face (separate object), single-threaded
    Tables rt;
    rt.load(data);
    gr_face_ops ops = {sizeof(gr_face_ops), &Tables::get, &Tables::rel};
    gr_face *rf = gr_make_face_with_ops(&rt, &ops, gr_face_preloadAll);
    if (!rf) { st.add("fonts_not_loaded"); st.print(); return 0; }
    std::vector<uint32_t> rep = repertoire(rf, 0x3000);
    static const float ppms[] = {12.0f, 96.5f};
    std::vector<gr_font *> rfonts;
    for (float p : ppms) rfonts.push_back(gr_make_font(p, rf));
    Rng r(a.case_seed(0));
    std::vector<Job> jobs;
    for (int i = 0; i < njobs; ++i) {
        Job j;
        j.text = (!lines.empty() && r.chance(0.6)) ? r.pick(lines) : random_text(r, rep, 24, false);
        if (j.text.size() > 40) j.text.resize(40);
        for (auto &c : j.text) if (c == 0 || !is_scalar(c)) c = 0x20;
        j.dir = int(r.below(4));
        j.fontidx = int(r.below(3)) - 1;
        j.enc = int(r.below(3));
        jobs.push_back(j);
    }
    std::vector<std::string> ref;
    for (auto &j : jobs) ref.push_back(run_job(rf, rfonts, j));
    std::string refreport = face_report(rf);
    for (gr_font *f : rfonts) gr_font_destroy(f);
    gr_face_destroy(rf);

    long mismatches = 0, segs = 0, callbacks_after = 0;
    for (int rep_i = 0; rep_i < reps; ++rep_i) {
        // ---- a fresh shared face per repetition: every repetition starts cold
        Tables stb;
        stb.load(data);
        gr_face *f = gr_make_face_with_ops(&stb, &ops, opt);
        if (!f) internal_fail("shared face does not load");
        stb.armed = 1;
        std::vector<gr_font *> fonts;
        for (float p : ppms) fonts.push_back(gr_make_font(p, f));
        long after_fonts = stb.gets_after.load();
        pthread_barrier_t bar;
        pthread_barrier_init(&bar, nullptr, unsigned(N));
        std::vector<std::vector<std::string>> out((size_t(N)), std::vector<std::string>(jobs.size()));
        std::vector<std::string> reports((size_t(N)));
        bool disjoint = (rep_i % 3) == 2;
        std::vector<std::thread> th;
        for (int t = 0; t < N; ++t) th.emplace_back([&, t] {
            Rng tr(a.case_seed(1000 + rep_i * 64 + t));
            pthread_barrier_wait(&bar);
            size_t n = jobs.size();
            for (size_t i = 0; i < n; ++i) {
                // identical lists in rotated order (threads meet on the same glyphs) or disjoint slices
                if (disjoint && i % size_t(N) != size_t(t)) continue;
                size_t idx = disjoint ? i : (i + size_t(t) * n / size_t(N)) % n;
                out[size_t(t)][idx] = run_job(f, fonts, jobs[idx]);
                if (tr.chance(0.3)) sched_yield();
                else if (tr.chance(0.1)) { volatile int spin = int(tr.below(2000)); while (spin > 0) spin = spin - 1; }
                if (i % 16 == size_t(t) % 16) reports[size_t(t)] = face_report(f);      // features, labels, languages on the shared face
            }
        });
        for (auto &x : th) x.join();
        pthread_barrier_destroy(&bar);
        for (int t = 0; t < N; ++t) {
            for (size_t i = 0; i < jobs.size(); ++i) {
                if (out[size_t(t)][i].empty()) continue;
                ++segs;
                if (out[size_t(t)][i] != ref[i]) { if (++mismatches <= 5 && !control) V("dump-differs", "thread %d of %d, job %zu (text %s dir %d): concurrent result differs from the sequential one", t, N, i, cps_str(jobs[i].text, 12).c_str(), jobs[i].dir); }
            }
            if (!reports[size_t(t)].empty() && reports[size_t(t)] != refreport) { ++mismatches; if (!control) V("report-differs", "thread %d: face self-report differs from the sequential one", t); }
        }
        callbacks_after += stb.gets_after.load();
        if (!control && stb.gets_after.load() != 0) V("callback-after-make", "%ld get_table call(s) after gr_make_face returned on the shared preloadAll face (%ld of them while creating fonts)", stb.gets_after.load(), after_fonts);
        for (gr_font *x : fonts) gr_font_destroy(x);
        gr_face_destroy(f);
    }
    st.add("threads", double(N));
    st.add("repetitions", double(reps));
    st.add("segments", double(segs));
    st.add("jobs", double(jobs.size()));
    st.add("mismatches", double(mismatches));
    st.add("callbacks_after_make", double(callbacks_after));
    st.add("oracle_firings", double(g_viol));
    printf("X {\"font\":%s,\"threads\":%d,\"reps\":%d,\"jobs\":%zu,\"control\":%d,\"first_text\":\"%s\"}\n", jstr(fontpath.substr(fontpath.rfind('/') + 1)).c_str(), N, reps, jobs.size(), int(control), cps_str(jobs[0].text, 10).c_str());
    st.print();
    return 0;
}
