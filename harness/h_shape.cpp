// General shaping executor: C02 (safe, terminating, bounded), C03 (glyph stream), C04 (attachment forest),
// C05 (char/slot association).  Every segment is walked by MON-STRUCT, dumped (which calls every query), and
// the H1 hook decides the "bounded work" clause with a counter.  --judge lists the clause groups that this
// run judges (others are counted as cross-observations).
//   --font P | --fontlist FILE [--per-font N]     fonts (file faces; options chosen per case)
//   --texts FILE                                  lines of UTF-8 text written for the font
//   --realgids 1                                  font is tagged real-glyph-classes (C03 gid clause applies)
//   --hostile 1                                   hostile text mix (ill-formed, astral, long runs)
#include "common.hpp"
using namespace vf;
static Stats st;
static std::string g_judge = "C02,C03,C04,C05";
static bool g_font_pa = false;
static bool judged(const char *c) { return g_judge.find(c) != std::string::npos; }

// ---- H1: rule-loop bound (logical steps, not time)
static double g_max_ratio = 0;
static long g_pass_runs = 0;
extern "C" void gr_verif_pass_loop(const void *, unsigned int max_rule_loop, size_t slots, long budget, unsigned long iters, int done) {
    OutLib _o;
    double bound = double(max_rule_loop ? max_rule_loop : 1) * (double(slots) + double(budget > 0 ? budget : 0) + 2.0);
    double ratio = double(iters) / bound;
    if (ratio > g_max_ratio) g_max_ratio = ratio;
    if (done) ++g_pass_runs;
    if (done && ratio > 0.8 && getenv("VF_LOOPDBG")) printf("D loop ratio=%.4f iters=%lu maxloop=%u slots=%zu budget=%ld case=%ld %s\n", ratio, iters, max_rule_loop, slots, budget, g_case, g_desc);
    if (double(iters) > bound) {
        if (judged("C02")) V("loop-bound", "rule loop ran %lu iterations > maxRuleLoop %u x (slots %zu + insert budget %ld + 2)%s", iters, max_rule_loop, slots, budget, done ? "" : " and is still running");
        else st.add("xobs_loop_bound");
        if (!done) { fflush(stdout); write_case("TIMEOUTCASE"); _exit(4); }
    }
}
static long g_rules_fired = 0;
extern "C" void gr_verif_rule_fired(const void *, unsigned int, const void *, const void *, unsigned int, unsigned int) { ++g_rules_fired; }

struct FaceSet {
    std::string path;
    gr_face *face[3] = {nullptr, nullptr, nullptr};       // options 0, preloadAll, cacheCmap
    std::vector<uint32_t> rep;
    std::vector<std::vector<uint32_t>> lines;
    std::vector<gr_font *> fonts;
    unsigned nglyphs = 0;
    bool own_texts = false;
    bool load(const std::string &p, const std::string &texts) {
        path = p;
        static const unsigned opts[3] = {gr_face_default, gr_face_preloadAll, gr_face_cacheCmap};
        for (int i = 0; i < 3; ++i) face[i] = LIB(gr_make_file_face(p.c_str(), opts[i]));
        if (!face[0]) { for (int i = 0; i < 3; ++i) if (face[i]) { LIBV(gr_face_destroy(face[i])); face[i] = nullptr; } return false; }
        rep = repertoire(face[0], 0x20000);
        nglyphs = gr_face_n_glyphs(face[0]);
        if (!texts.empty()) lines = text_lines(texts, 4000);
        else {
            // a synthesised font may come with its own texts (budget-boundary strings computed by the generator)
            std::string side = p.size() > 4 ? p.substr(0, p.size() - 4) + ".texts" : std::string();
            std::vector<uint8_t> probe;
            if (!side.empty() && read_file(side, probe)) { lines = text_lines(side, 4000); own_texts = true; }
        }
        static const float ppms[] = {1.0f, 12.0f, 96.5f, 4096.0f};
        for (float p2 : ppms) fonts.push_back(LIB(gr_make_font(p2, face[0])));
        return true;
    }
    void unload() {
        for (gr_font *f : fonts) if (f) LIBV(gr_font_destroy(f));
        fonts.clear();
        for (int i = 0; i < 3; ++i) if (face[i]) { LIBV(gr_face_destroy(face[i])); face[i] = nullptr; }
    }
};

static void report(const StructReport &sr) {
    for (auto &m : sr.c02) { if (judged("C02")) V(("growth:" + m.substr(0, m.find(' '))).c_str(), "%s", m.c_str()); else st.add("xobs_c02"); }
    for (auto &m : sr.c03) { if (judged("C03")) V(m.substr(0, m.find(' ')).c_str(), "%s", m.c_str()); else st.add("xobs_c03"); }
    for (auto &m : sr.c04) { if (judged("C04")) V(m.substr(0, m.find(' ')).c_str(), "%s", m.c_str()); else st.add("xobs_c04"); }
    for (auto &m : sr.c05) {
        std::string key = m.substr(0, m.find(' '));
        // coverage is computed before the positioning passes: fonts that re-associate slots there are a known finding class
        if (key == "uncovered" && g_font_pa) key = "uncovered:positioning-pass-reassociation";
        if (judged("C05")) V(key.c_str(), "%s", m.c_str()); else st.add("xobs_c05");
    }
}

static void one_case(const Args &a, long k, FaceSet &fs, bool hostile, bool realgids) {
    Rng r(a.case_seed(k));
    int fi = int(r.below(3));
    gr_face *f = fs.face[fi] ? fs.face[fi] : fs.face[0];
    // ---- text
    std::vector<uint32_t> t;
    int kind = int(r.below(10));
    if (!fs.lines.empty() && (kind < 4 || (fs.own_texts && kind < 8))) {
        t = r.pick(fs.lines);
        if (fs.own_texts) {}
        else if (t.size() > 6 && r.chance(0.5)) { size_t a0 = r.below(uint32_t(t.size() - 2)); size_t n = 1 + r.below(uint32_t(t.size() - a0)); t = std::vector<uint32_t>(t.begin() + long(a0), t.begin() + long(a0 + n)); }
        if (!fs.own_texts && r.chance(0.3)) for (size_t i = t.size(); i > 1; --i) std::swap(t[i - 1], t[r.below(uint32_t(i))]);     // permutation of a test line
    } else {
        int maxlen = r.chance(0.03) ? (r.chance(0.3) ? 4000 : 500) : 64;
        t = random_text(r, fs.rep, maxlen, hostile || kind >= 8);
    }
    for (auto &c : t) if (c == 0 || !is_scalar(c)) c = 0xFFFD;
    int e = int(r.below(3));
    static const gr_encform encs[3] = {gr_utf8, gr_utf16, gr_utf32};
    int dir = int(r.below(8));
    const gr_font *font = (fi == 0 && r.chance(0.5) && !fs.fonts.empty()) ? r.pick(fs.fonts) : nullptr;
    long live0 = AllocMon::live;
    // ---- features
    gr_feature_val *fv = nullptr;
    int fmode = int(r.below(4));
    unsigned nf = gr_face_n_fref(f), nl = gr_face_n_languages(f);
    if (fmode >= 1) {
        uint32_t lang = (fmode == 1 && nl) ? gr_face_lang_by_index(f, uint16_t(r.below(nl))) : 0;
        fv = LIB(gr_face_featureval_for_lang(f, lang));
        if (fmode >= 2 && nf && fv) {
            int nset = r.range(1, 4);
            for (int i = 0; i < nset; ++i) {
                const gr_feature_ref *fr = gr_face_fref(f, uint16_t(r.below(nf)));
                unsigned nv = gr_fref_n_values(fr);
                uint16_t v = (nv && r.chance(0.7)) ? uint16_t(gr_fref_value(fr, uint16_t(r.below(nv)))) : uint16_t(r.chance(0.5) ? r.below(4) : r.below(65536));
                gr_fref_set_feature_value(fr, v, fv);
            }
        }
    }
    bool illformed = hostile && !fs.own_texts && r.chance(0.25);
    Text tx;
    void *raw = nullptr;
    const void *buf;
    size_t nch;
    if (!illformed) { tx.set(encs[e], t, false); buf = tx.buf; nch = t.size(); }
    else {
        // raw code units with damage, NUL terminated; nChars = number of units (upper bound, C12 contract)
        tx.set(encs[e], t, true);
        size_t unit = e == 0 ? 1 : e == 1 ? 2 : 4, units = tx.bytes / unit;
        raw = malloc(tx.bytes);
        memcpy(raw, tx.buf, tx.bytes);
        int ndam = r.range(1, 3);
        for (int i = 0; i < ndam && units > 1; ++i) {
            size_t at = r.below(uint32_t(units - 1));
            if (e == 0) static_cast<uint8_t *>(raw)[at] = uint8_t(0x80 + r.below(0x80));
            else if (e == 1) static_cast<uint16_t *>(raw)[at] = uint16_t(0xD800 + r.below(0x800));
            else {
                // UTF-32: values at the edges of the surrogate block and of the code space (ill-formed ones AND their valid neighbours)
                static const uint32_t edges[] = {0xD7FF, 0xD800, 0xD801, 0xDBFF, 0xDC00, 0xDFFE, 0xDFFF, 0xE000, 0x10FFFF, 0x110000, 0x1D800, 0x10DFFF, 0x7FFFFFFF, 0x80000000u, 0xFFFFFFFFu, 0xFFFFD800u};
                static_cast<uint32_t *>(raw)[at] = r.chance(0.6) ? edges[r.below(sizeof edges / sizeof edges[0])] : r.chance(0.5) ? 0x110000 + r.below(1000) : 0xD800 + r.below(0x800);
            }
        }
        buf = raw; nch = units - 1;
    }
    set_case(k, "font=%s opt=%d enc=%d dir=%d ppm=%s feat=%d ill=%d n=%zu text=%s", fs.path.c_str(), fi, 1 << e, dir, font ? "y" : "null", fmode, int(illformed), t.size(), cps_str(t, 24).c_str());
    cpu_budget_ms(t.size() > 400 ? 120000 : 20000);
    long fired0 = g_rules_fired;
    gr_segment *seg = LIB(gr_make_seg(font, f, 0, fv, encs[e], buf, nch, dir));
    st.add("segments");
    st.count("by_dir", std::to_string(dir));
    st.count("by_enc", std::to_string(1 << e));
    if (illformed) st.add("illformed_texts");
    if (!seg) st.add("null_segments");
    else {
        if (getenv("VF_DUMP")) {
            // structure only, pointer-safe: index, gid, parent / first child / next sibling as stream indices (-1 none, -2 not in the stream)
            std::map<const gr_slot *, int> ix;
            int n = 0;
            for (const gr_slot *p = gr_seg_first_slot(seg); p && n < 100000; p = gr_slot_next_in_segment(p)) ix[p] = n++;
            auto id = [&](const gr_slot *p) { return !p ? -1 : ix.count(p) ? ix[p] : -2; };
            for (const gr_slot *p = gr_seg_first_slot(seg); p; p = gr_slot_next_in_segment(p))
                printf("D slot %d gid=%u par=%d ch=%d sib=%d before=%d after=%d\n", ix[p], gr_slot_gid(p), id(gr_slot_attached_to(p)), id(gr_slot_first_attachment(p)), id(gr_slot_next_sibling_attachment(p)), gr_slot_before(p), gr_slot_after(p));
        }
        size_t nchars = illformed ? gr_seg_n_cinfo(seg) : t.size();
        StructReport sr;
        std::vector<const gr_slot *> order = walk_struct(seg, nchars, realgids ? fs.nglyphs : 0, f, font, sr);
        if (illformed && gr_seg_n_cinfo(seg) > nch) sr.c05.push_back(fmt("ncinfo-ill %u char-infos for %zu code units", gr_seg_n_cinfo(seg), nch));
        if (illformed && e == 2) {
            // UTF-32 is one unit per character whatever the damage: every unit that is a scalar value decodes as itself, every other as U+FFFD
            const uint32_t *u = static_cast<const uint32_t *>(raw);
            if (gr_seg_n_cinfo(seg) != nch) sr.c05.push_back(fmt("ncinfo-utf32 %u char-infos for %zu UTF-32 units before the NUL", gr_seg_n_cinfo(seg), nch));
            else for (unsigned i = 0; i < nch; ++i) {
                const gr_char_info *ci = gr_seg_cinfo(seg, i);
                uint32_t want = is_scalar(u[i]) ? u[i] : 0xFFFD;
                if (gr_cinfo_unicode_char(ci) != want) { sr.c05.push_back(fmt("decoded UTF-32 unit %08x at %u decodes as %x, expected %x", u[i], i, gr_cinfo_unicode_char(ci), want)); break; }
                if (gr_cinfo_base(ci) != i) { sr.c05.push_back(fmt("base UTF-32 char %u base %zu", i, gr_cinfo_base(ci))); break; }
            }
        }
        if (!illformed)
            for (unsigned i = 0; i < gr_seg_n_cinfo(seg) && i < t.size(); ++i) {
                const gr_char_info *ci = gr_seg_cinfo(seg, i);
                if (gr_cinfo_unicode_char(ci) != t[i]) { sr.c05.push_back(fmt("decoded char %u is %x, input was %x", i, gr_cinfo_unicode_char(ci), t[i])); break; }
                if (gr_cinfo_base(ci) != tx.unit_off[i]) { sr.c05.push_back(fmt("base char %u base %zu, expected code-unit offset %zu", i, gr_cinfo_base(ci), tx.unit_off[i])); break; }
            }
        report(sr);
        std::string d = dump_seg(seg, f, font);        // calls every query on every slot / char-info
        size_t ns = order.size();
        st.mx("max_slots", double(ns));
        if (nchars) st.mx("max_growth_x100", 100.0 * double(ns) / double(nchars));
        bool attached = false;
        for (auto p : order) if (gr_slot_attached_to(p)) { attached = true; break; }
        if (attached) st.add("segs_with_attachments");
        if (g_rules_fired > fired0 && ns >= 2) { st.add("nontrivial"); }
        if (ns != nchars) st.add("segs_length_changed");
        if (a.verbose()) fputs(d.c_str(), stdout);
        LIBV(gr_seg_destroy(seg));
    }
    if (fv) LIBV(gr_featureval_destroy(fv));
    cpu_budget_ms(0);
    if (fi == 1 && AllocMon::live != live0) {
        if (judged("C02")) V("leak:per-segment", "library allocations live before the case %ld, after destroy %ld (preloaded face)", live0, AllocMon::live);
        else st.add("xobs_leak");
    }
    free(raw);
    if (k % 997 == 0) printf("X {\"font\":%s,\"opt\":%d,\"enc\":%d,\"dir\":%d,\"illformed\":%d,\"text\":\"%s\"}\n", jstr(fs.path.substr(fs.path.rfind('/') + 1)).c_str(), fi, 1 << e, dir, int(illformed), cps_str(t, 12).c_str());
}

int main(int argc, char **argv) {
    Args a;
    a.parse(argc, argv);
    install_handlers();
    AllocMon::install();
    g_judge = a.get("judge", "C02,C03,C04,C05");
    bool hostile = a.geti("hostile", 0) != 0, realgids = a.geti("realgids", 0) != 0;
    std::vector<std::string> flist;
    if (!a.get("fontlist").empty()) {
        std::vector<uint8_t> d;
        if (!read_file(a.get("fontlist"), d)) internal_fail("cannot read fontlist");
        std::string cur;
        for (uint8_t c : d) { if (c == '\n') { if (!cur.empty()) flist.push_back(cur); cur.clear(); } else cur += char(c); }
        if (!cur.empty()) flist.push_back(cur);
    } else flist.push_back(a.get("font"));
    long per = a.get("fontlist").empty() ? a.cases : a.geti("per-font", 50);
    // fonts of a list are dealt to shards round-robin; a single font is shared by all shards (different seeds)
    for (size_t fi = 0; fi < flist.size(); ++fi) {
        if (flist.size() > 1 && long(fi % size_t(a.nshards)) != a.shard) continue;
        long base = long(fi) * per;
        if (a.only >= 0 && (a.only < base || a.only >= base + per)) continue;
        if (a.only < 0 && a.start >= base + per) continue;
        FaceSet fs;
        set_case(base, "loading font=%s", flist[fi].c_str());
        cpu_budget_ms(60000);
        g_font_pa = flist[fi].find("_pa.ttf") != std::string::npos;
        bool ok = fs.load(flist[fi], a.get("texts"));
        cpu_budget_ms(0);
        if (!ok) { st.add("fonts_not_loaded"); continue; }
        st.add("fonts_loaded");
        for (long k = base; k < base + per; ++k) if (a.runs(k)) one_case(a, k, fs, hostile, realgids);
        set_case(base + per - 1, "unloading font=%s", flist[fi].c_str());
        fs.unload();
        if (AllocMon::live != 0) {
            if (judged("C02")) V("leak:at-quiescence", "%ld library allocations (%ld bytes) still live after all segments, fonts and faces of %s were destroyed", AllocMon::live, AllocMon::live_bytes, flist[fi].c_str());
            AllocMon::reset();
        }
    }
    st.mx("max_loop_ratio_x1e6", g_max_ratio * 1e6);
    st.add("pass_runs", double(g_pass_runs));
    st.add("rules_fired", double(g_rules_fired));
    st.add("lib_allocations", double(AllocMon::total));
    st.add("oracle_firings", double(g_viol));
    st.print();
    return 0;
}
