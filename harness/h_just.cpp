// C19: line breaking and justification never corrupt the glyph stream.
// A case = one segment, a random set of gr_slot_linebreak_before cuts, then a history of gr_seg_justify calls
// (random line order, width, flags, pFirst/pLast sub-range, repeats).  After EVERY call ALL lines are re-walked:
// each must still be the same slots in the same order, prev the exact inverse, ends NULL-terminated, origins and the
// returned width finite, gids unchanged for fonts without justification.  Hangs are caught by the per-case CPU budget.
#include "common.hpp"
using namespace vf;
static Stats st;

struct Line { size_t b, e; };

static bool check_lines(const std::vector<const gr_slot *> &order, const std::vector<Line> &lines, const std::vector<uint16_t> &gids, bool justifies,
                        size_t justline, const char *ctx) {
    bool ok = true;
    for (size_t kk = 0; kk < lines.size() && ok; ++kk) {
        size_t bb = lines[kk].b, ee = lines[kk].e;
        const gr_slot *p = order[bb], *prev = nullptr;
        size_t i = bb;
        if (gr_slot_prev_in_segment(p) != nullptr) { V("chain:line-start-prev", "line %zu (of %zu) start has a prev after justify of line %zu; %s", kk, lines.size(), justline, ctx); ok = false; break; }
        for (; p && i < ee; p = gr_slot_next_in_segment(p), ++i) {
            if (p != order[i]) { V("chain:order", "line %zu pos %zu holds another slot after justify of line %zu; %s", kk, i - bb, justline, ctx); ok = false; break; }
            if (gr_slot_prev_in_segment(p) != prev) { V("chain:prev", "line %zu pos %zu prev is not the previous slot after justify of line %zu; %s", kk, i - bb, justline, ctx); ok = false; break; }
            prev = p;
            if (!std::isfinite(gr_slot_origin_X(p)) || !std::isfinite(gr_slot_origin_Y(p))) { V("finite:origin", "line %zu pos %zu origin not finite; %s", kk, i - bb, ctx); ok = false; break; }
            if (!justifies && gr_slot_gid(p) != gids[i]) { V("gid-changed", "line %zu pos %zu gid %u -> %u on a font without justification; %s", kk, i - bb, gids[i], gr_slot_gid(p), ctx); ok = false; break; }
        }
        if (ok && (i != ee || p != nullptr)) { V("chain:length", "line %zu has %s slots than before (walked %zu of %zu) after justify of line %zu; %s", kk, p ? "more" : "fewer", i - bb, ee - bb, justline, ctx); ok = false; }
    }
    return ok;
}

int main(int argc, char **argv) {
    Args a;
    a.parse(argc, argv);
    install_handlers();
    AllocMon::install();
    std::string fontpath = a.get("font");
    std::vector<std::vector<uint32_t>> tl;
    if (!a.get("texts").empty()) tl = text_lines(a.get("texts"), 4000);
    gr_face *f = LIB(gr_make_file_face(fontpath.c_str(), unsigned(a.geti("opt", 0))));
    if (!f) { st.add("fonts_not_loaded"); st.print(); return 0; }
    std::vector<uint32_t> rep = repertoire(f, 0x20000);
    gr_font *font = LIB(gr_make_font(20, f));
    const gr_faceinfo *fi = gr_face_info(f, 0);
    bool justifies = fi && fi->justifies;
    st.count("fonts", fmt("justifies=%d,line_ends=%d,bidi=%d", fi ? int(fi->justifies) : -1, fi ? int(fi->line_ends) : -1, fi ? int(fi->has_bidi_pass) : -1));
    for (long k = 0; k < a.cases; ++k) {
        if (!a.runs(k)) continue;
        Rng r(a.case_seed(k));
        std::vector<uint32_t> t;
        if (!tl.empty() && r.chance(0.4)) { t = r.pick(tl); if (t.size() > 40) t.resize(40); }
        else { int n = r.range(2, 32); for (int i = 0; i < n; ++i) t.push_back(r.chance(0.8) && !rep.empty() ? r.pick(rep) : 0x20); }
        for (auto &c : t) if (c == 0 || !is_scalar(c)) c = 0x20;
        int dir = int(r.below(8));
        const gr_font *fo = r.chance(0.5) ? font : nullptr;
        set_case(k, "just font=%s dir=%d font=%s n=%zu text=%s", fontpath.c_str(), dir, fo ? "20ppm" : "null", t.size(), cps_str(t, 24).c_str());
        cpu_budget_ms(8000);
        long live0 = AllocMon::live;
        Text tx;
        tx.set(gr_utf32, t, false);
        gr_segment *s = LIB(gr_make_seg(fo, f, 0, nullptr, gr_utf32, tx.buf, t.size(), dir));
        if (!s) { st.add("null_segments"); cpu_budget_ms(0); continue; }
        std::vector<const gr_slot *> order;
        for (const gr_slot *p = gr_seg_first_slot(s); p; p = gr_slot_next_in_segment(p)) order.push_back(p);
        if (order.size() < 2) { LIBV(gr_seg_destroy(s)); cpu_budget_ms(0); continue; }
        std::vector<uint16_t> gids;
        for (auto p : order) gids.push_back(gr_slot_gid(p));
        // cuts at interior slots
        std::vector<Line> lines;
        {
            std::vector<size_t> starts(1, 0);
            int cutmode = int(r.below(4));      // 0: none, else density
            for (size_t i = 1; i < order.size(); ++i) if (cutmode && r.below(cutmode == 1 ? 3 : 7) == 0) starts.push_back(i);
            for (size_t j = 1; j < starts.size(); ++j) LIBV(gr_slot_linebreak_before(const_cast<gr_slot *>(order[starts[j]])));
            for (size_t j = 0; j < starts.size(); ++j) lines.push_back({starts[j], j + 1 < starts.size() ? starts[j + 1] : order.size()});
        }
        st.add("segments");
        st.add("lines", double(lines.size()));
        if (lines.size() > 1) st.add("multi_line_segments");
        std::string ctx0 = fmt("dir=%d lines=%zu", dir, lines.size());
        bool ok = check_lines(order, lines, gids, true, size_t(-1), (ctx0 + " (before any justify)").c_str());
        int ncalls = r.range(1, int(2 * lines.size() + 1));
        for (int c = 0; c < ncalls && ok; ++c) {
            size_t li = r.below(uint32_t(lines.size()));
            size_t b = lines[li].b, e = lines[li].e;
            // natural width of the line in the units of the call
            double natural = 0;
            for (size_t i = b; i < e; ++i) natural += gr_slot_advance_X(order[i], f, fo);
            double width;
            switch (r.below(7)) {
            case 0: width = -1; break;
            case 1: width = 0; break;
            case 2: width = 1e6; break;
            case 3: width = natural; break;
            case 4: width = natural * 0.5; break;
            case 5: width = natural * 2; break;
            default: width = r.below(2000) / 3.0; break;
            }
            int flags = int(r.below(4));
            const gr_slot *pf = nullptr, *pl = nullptr;
            size_t i1 = b, i2 = e - 1;
            if (r.chance(0.35)) i1 = b + r.below(uint32_t(e - b));
            if (r.chance(0.35)) i2 = b + r.below(uint32_t(e - b));
            if (i1 > i2) std::swap(i1, i2);
            if (i1 != b || r.chance(0.2)) pf = order[i1];
            if (i2 != e - 1 || r.chance(0.2)) pl = order[i2];
            std::string ctx = fmt("%s call=%d line=%zu[%zu,%zu) width=%.6g flags=%d pFirst=%s pLast=%s", ctx0.c_str(), c, li, b, e, width, flags,
                                  pf ? fmt("%zu", i1 - b).c_str() : "NULL", pl ? fmt("%zu", i2 - b).c_str() : "NULL");
            set_case(k, "just font=%s dir=%d font=%s text=%s :: %s", fontpath.c_str(), dir, fo ? "20ppm" : "null", cps_str(t, 16).c_str(), ctx.c_str());
            float w = LIB(gr_seg_justify(s, order[b], fo, width, gr_justFlags(flags), pf, pl));
            st.add("justify_calls");
            st.count("by_dir", std::to_string(dir));
            if (pf || pl) st.add("subrange_calls");
            if (!std::isfinite(w)) { V("finite:width", "gr_seg_justify returned %g; %s", double(w), ctx.c_str()); ok = false; }
            ok = check_lines(order, lines, gids, justifies, li, ctx.c_str()) && ok;
        }
        if (ok && lines.size() > 1) st.add("nontrivial");
        else if (ok) st.add("nontrivial_single");
        // destroy must still release the whole segment
        LIBV(gr_seg_destroy(s));
        if (ok && AllocMon::live > live0 && a.geti("opt", 0) == 6)
            V("leak", "%ld library allocations more than before the case after gr_seg_destroy", AllocMon::live - live0);
        cpu_budget_ms(0);
        if (k % 499 == 0) printf("X {\"font\":%s,\"dir\":%d,\"lines\":%zu,\"calls\":%d,\"text\":\"%s\"}\n", jstr(fontpath.substr(fontpath.rfind('/') + 1)).c_str(), dir, lines.size(), ncalls, cps_str(t, 12).c_str());
    }
    LIBV(gr_font_destroy(font));
    LIBV(gr_face_destroy(f));
    if (AllocMon::live != 0) V("leak:at-quiescence", "%ld library allocations live after the face was destroyed", AllocMon::live);
    st.add("oracle_firings", double(g_viol));
    st.print();
    return 0;
}
