// Shared monitors and plumbing for every harness (see DESIGN.md section 2).
//   case tracking + crash / CPU-budget attribution, PRNG, argument parsing,
//   MON-TABLE (instrumented gr_face_ops), MON-ALLOC (allocation balance via sanitizer hooks),
//   MON-DUMP (canonical segment dump through the public API), MON-STRUCT (C03/C04/C05 walkers),
//   UTF encoders and a strict independent decoder, text generators.
#pragma once
#include <graphite2/Font.h>
#include <graphite2/Segment.h>
#include <cmath>
#include <csignal>
#include <cstdarg>
#include <cstdint>
#include <cstdio>
#include <cstdlib>
#include <cstring>
#include <map>
#include <set>
#include <string>
#include <vector>
#include <sys/time.h>
#include <unistd.h>

#if defined(__SANITIZE_ADDRESS__)
#define VF_ASAN 1
#elif defined(__has_feature)
#if __has_feature(address_sanitizer)
#define VF_ASAN 1
#endif
#endif
#if defined(__SANITIZE_THREAD__)
#define VF_TSAN 1
#endif

extern "C" {
#if defined(VF_ASAN)
int __sanitizer_install_malloc_and_free_hooks(void (*malloc_hook)(const volatile void *, size_t),
                                              void (*free_hook)(const volatile void *));
#endif
#if defined(VF_ASAN) || defined(VF_TSAN)
void __sanitizer_set_death_callback(void (*callback)(void));
#endif
}

namespace vf {

// ------------------------------------------------------------------ PRNG
static inline uint64_t splitmix(uint64_t &x) {
    uint64_t z = (x += 0x9E3779B97F4A7C15ULL);
    z = (z ^ (z >> 30)) * 0xBF58476D1CE4E5B9ULL;
    z = (z ^ (z >> 27)) * 0x94D049BB133111EBULL;
    return z ^ (z >> 31);
}
static inline uint64_t mix(uint64_t a, uint64_t b, uint64_t c = 0) {
    uint64_t x = a * 0x9E3779B97F4A7C15ULL ^ (b + 0x7F4A7C15ULL) * 0xBF58476D1CE4E5B9ULL ^ (c + 0x1234567ULL) * 0x94D049BB133111EBULL;
    return splitmix(x);
}
struct Rng {
    uint64_t s;
    explicit Rng(uint64_t seed = 1) : s(seed) {}
    uint64_t next() { return splitmix(s); }
    uint32_t below(uint32_t n) { return n ? uint32_t(next() % n) : 0; }
    int range(int lo, int hi) { return lo + int(below(uint32_t(hi - lo + 1))); }   // inclusive
    bool chance(double p) { return (next() >> 11) * (1.0 / 9007199254740992.0) < p; }
    double unit() { return (next() >> 11) * (1.0 / 9007199254740992.0); }
    template <class T> const T &pick(const std::vector<T> &v) { return v[below(uint32_t(v.size()))]; }
};

// ------------------------------------------------------------------ args
struct Args {
    uint64_t seed = 1;
    long shard = 0, nshards = 1, cases = 0, start = 0, only = -1;
    std::map<std::string, std::string> kv;
    std::vector<std::string> pos;
    void parse(int argc, char **argv) {
        for (int i = 1; i < argc; ++i) {
            std::string a = argv[i];
            if (a.size() > 2 && a[0] == '-' && a[1] == '-' && i + 1 < argc) {
                std::string v = argv[++i];
                if (a == "--seed") seed = strtoull(v.c_str(), 0, 10);
                else if (a == "--shard") shard = atol(v.c_str());
                else if (a == "--nshards") nshards = atol(v.c_str());
                else if (a == "--cases") cases = atol(v.c_str());
                else if (a == "--start") start = atol(v.c_str());
                else if (a == "--only") only = atol(v.c_str());
                else kv[a.substr(2)] = v;
            } else pos.push_back(a);
        }
    }
    std::string get(const char *k, const char *d = "") const { auto it = kv.find(k); return it == kv.end() ? d : it->second; }
    long geti(const char *k, long d = 0) const { auto it = kv.find(k); return it == kv.end() ? d : atol(it->second.c_str()); }
    bool runs(long k) const { return only >= 0 ? k == only : k >= start; }
    bool verbose() const { return only >= 0; }
    uint64_t case_seed(long k) const { return mix(seed, uint64_t(shard) * 1000003ULL + 17, uint64_t(k)); }
};

// ------------------------------------------------------------------ case tracking
static long g_case = -1;
static char g_desc[512] = "";
static volatile sig_atomic_t g_reported = 0;
static long g_viol = 0;

static inline void write_case(const char *tag) {
    if (g_reported) return;
    g_reported = 1;
    char buf[700];
    int n = snprintf(buf, sizeof buf, "\n%s %ld %s\n", tag, g_case, g_desc);
    if (n > 0) { ssize_t r = write(2, buf, size_t(n)); (void)r; }
}
static void on_death() { write_case("CRASHCASE"); }
static void on_signal(int sig) {
    if (sig == SIGVTALRM) { write_case("TIMEOUTCASE"); _exit(4); }
    write_case("CRASHCASE");
    signal(sig, SIG_DFL);
    raise(sig);
}
static inline void install_handlers() {
#if defined(VF_ASAN) || defined(VF_TSAN)
    __sanitizer_set_death_callback(on_death);
#endif
    signal(SIGABRT, on_signal);
    signal(SIGVTALRM, on_signal);
    signal(SIGFPE, on_signal);
    signal(SIGILL, on_signal);
#if !defined(VF_ASAN) && !defined(VF_TSAN)
    signal(SIGSEGV, on_signal);
    signal(SIGBUS, on_signal);
#endif
    setvbuf(stdout, 0, _IOLBF, 0);
}
// CPU-time budget for the current case (process virtual time, not wall clock); 0 disarms.
static inline void cpu_budget_ms(long ms) {
    struct itimerval it;
    memset(&it, 0, sizeof it);
    it.it_value.tv_sec = ms / 1000;
    it.it_value.tv_usec = (ms % 1000) * 1000;
    setitimer(ITIMER_VIRTUAL, &it, 0);
}
static inline void set_case(long k, const char *fmt, ...) __attribute__((format(printf, 2, 3)));
static inline void set_case(long k, const char *fmt, ...) {
    g_case = k;
    va_list ap;
    va_start(ap, fmt);
    vsnprintf(g_desc, sizeof g_desc, fmt, ap);
    va_end(ap);
    for (char *p = g_desc; *p; ++p) if (*p == '\n') *p = ' ';
}
static inline void V(const char *key, const char *fmt, ...) __attribute__((format(printf, 2, 3)));
static inline void V(const char *key, const char *fmt, ...) {
    ++g_viol;
    if (g_viol > 200) return;       // keep logs bounded; the count is still reported
    char buf[1500];
    va_list ap;
    va_start(ap, fmt);
    vsnprintf(buf, sizeof buf, fmt, ap);
    va_end(ap);
    for (char *p = buf; *p; ++p) if (*p == '\n') *p = ' ';
    printf("V %s case=%ld [%s] %s\n", key, g_case, g_desc, buf);
}
[[noreturn]] static inline void internal_fail(const char *fmt, ...) {
    va_list ap;
    va_start(ap, fmt);
    fprintf(stderr, "HARNESS-INTERNAL: ");
    vfprintf(stderr, fmt, ap);
    fprintf(stderr, "\n");
    va_end(ap);
    _exit(3);
}

// ------------------------------------------------------------------ JSON-ish stats output
struct Stats {
    std::map<std::string, double> num;
    std::map<std::string, std::map<std::string, long>> ctr;
    void add(const char *k, double v = 1) { num[k] += v; }
    void mx(const char *k, double v) { auto it = num.find(k); if (it == num.end() || it->second < v) num[k] = v; }
    void count(const char *group, const std::string &k, long v = 1) { ctr[group][k] += v; }
    void print() const {
        std::string s = "S {";
        bool first = true;
        char b[128];
        for (auto &kv : num) {
            if (std::floor(kv.second) == kv.second && std::fabs(kv.second) < 9e15) snprintf(b, sizeof b, "%.0f", kv.second);
            else snprintf(b, sizeof b, "%.9g", kv.second);
            s += (first ? "\"" : ",\"") + kv.first + "\":" + b;
            first = false;
        }
        for (auto &g : ctr) {
            s += (first ? "\"" : ",\"") + g.first + "\":{";
            first = false;
            bool f2 = true;
            for (auto &kv : g.second) {
                snprintf(b, sizeof b, "%ld", kv.second);
                s += (f2 ? "\"" : ",\"") + kv.first + "\":" + b;
                f2 = false;
            }
            s += "}";
        }
        s += "}";
        puts(s.c_str());
    }
};
static inline std::string jstr(const std::string &in) {
    std::string o = "\"";
    char b[8];
    for (unsigned char c : in) {
        if (c == '"' || c == '\\') { o += '\\'; o += char(c); }
        else if (c < 0x20 || c >= 0x7F) { snprintf(b, sizeof b, "\\u%04x", c); o += b; }
        else o += char(c);
    }
    return o + "\"";
}
static inline std::string hexs(const void *p, size_t n) {
    static const char *d = "0123456789abcdef";
    std::string o;
    const unsigned char *b = static_cast<const unsigned char *>(p);
    for (size_t i = 0; i < n; ++i) { o += d[b[i] >> 4]; o += d[b[i] & 15]; }
    return o;
}
static inline uint64_t fnv(const void *p, size_t n, uint64_t h = 1469598103934665603ULL) {
    const unsigned char *b = static_cast<const unsigned char *>(p);
    for (size_t i = 0; i < n; ++i) { h ^= b[i]; h *= 1099511628211ULL; }
    return h;
}

// ------------------------------------------------------------------ files / sfnt
static inline bool read_file(const std::string &path, std::vector<uint8_t> &out) {
    FILE *f = fopen(path.c_str(), "rb");
    if (!f) return false;
    fseek(f, 0, SEEK_END);
    long n = ftell(f);
    fseek(f, 0, SEEK_SET);
    out.resize(n > 0 ? size_t(n) : 0);
    size_t r = n > 0 ? fread(out.data(), 1, size_t(n), f) : 0;
    fclose(f);
    return r == out.size();
}
static inline bool write_file(const std::string &path, const void *p, size_t n) {
    FILE *f = fopen(path.c_str(), "wb");
    if (!f) return false;
    size_t w = n ? fwrite(p, 1, n, f) : 0;
    fclose(f);
    return w == n;
}
static inline uint32_t rd32(const uint8_t *p) { return uint32_t(p[0]) << 24 | uint32_t(p[1]) << 16 | uint32_t(p[2]) << 8 | p[3]; }
static inline uint16_t rd16(const uint8_t *p) { return uint16_t(p[0] << 8 | p[1]); }
static inline void wr16(uint8_t *p, unsigned v) { p[0] = uint8_t(v >> 8); p[1] = uint8_t(v); }
static inline void wr32(uint8_t *p, uint32_t v) { p[0] = uint8_t(v >> 24); p[1] = uint8_t(v >> 16); p[2] = uint8_t(v >> 8); p[3] = uint8_t(v); }

struct SfntDirEnt { uint32_t tag, off, len; };
// Independent, lenient view of an sfnt directory (entries that point outside the file are dropped).
static inline std::vector<SfntDirEnt> sfnt_dir(const std::vector<uint8_t> &d) {
    std::vector<SfntDirEnt> v;
    if (d.size() < 12) return v;
    unsigned n = rd16(&d[4]);
    for (unsigned i = 0; i < n && 12 + 16 * (i + 1) <= d.size(); ++i) {
        const uint8_t *e = &d[12 + 16 * i];
        SfntDirEnt t = {rd32(e), rd32(e + 8), rd32(e + 12)};
        if (uint64_t(t.off) + t.len <= d.size()) v.push_back(t);
    }
    return v;
}

// ------------------------------------------------------------------ MON-ALLOC
// Allocations made while the "inside library" flag is set enter a live set; the set must be empty at
// quiescence (everything the harness created has been destroyed).  The hooks run inside the allocator, so
// the set is a fixed open-addressing table and nothing here allocates.
struct AllocMon {
    static const size_t N = 1u << 20;
    static const volatile void *tab[N];
    static size_t sz[N];
    static long live, live_bytes, total, dropped;
    static __thread int inlib;
    static bool installed;
    static size_t slot(const volatile void *p) { return size_t((uintptr_t(p) >> 4) * 0x9E3779B97F4A7C15ULL >> 44) & (N - 1); }
    static void on_malloc(const volatile void *p, size_t n) {
        if (!inlib || !p) return;
        size_t i = slot(p);
        for (size_t k = 0; k < 4096; ++k, i = (i + 1) & (N - 1))
            if (tab[i] == 0 || tab[i] == (const volatile void *)1) { tab[i] = p; sz[i] = n; ++live; live_bytes += long(n); ++total; return; }
        ++dropped;
    }
    static void on_free(const volatile void *p) {
        if (!p || live == 0) return;
        size_t i = slot(p);
        for (size_t k = 0; k < 4096 && tab[i]; ++k, i = (i + 1) & (N - 1))
            if (tab[i] == p) { tab[i] = (const volatile void *)1; --live; live_bytes -= long(sz[i]); return; }
    }
    static void install() {
#if defined(VF_ASAN)
        if (!installed) { __sanitizer_install_malloc_and_free_hooks(on_malloc, on_free); installed = true; }
#endif
    }
    static void reset() { if (live || dropped) { memset((void *)tab, 0, sizeof tab); live = live_bytes = dropped = 0; } }
};
const volatile void *AllocMon::tab[AllocMon::N];
size_t AllocMon::sz[AllocMon::N];
long AllocMon::live = 0, AllocMon::live_bytes = 0, AllocMon::total = 0, AllocMon::dropped = 0;
__thread int AllocMon::inlib = 0;
bool AllocMon::installed = false;
// RAII: "the library is running" (cleared again inside harness callbacks)
struct InLib { int saved; InLib() : saved(AllocMon::inlib) { AllocMon::inlib = 1; } ~InLib() { AllocMon::inlib = saved; } };
struct OutLib { int saved; OutLib() : saved(AllocMon::inlib) { AllocMon::inlib = 0; } ~OutLib() { AllocMon::inlib = saved; } };
#define LIB(expr) ([&]() { vf::InLib _il; return (expr); }())
#define LIBV(stmt) do { vf::InLib _il; stmt; } while (0)

// ------------------------------------------------------------------ MON-TABLE
// Instrumented gr_face_ops over an in-memory sfnt: every answer is an exact-size heap copy (so that an
// over-read lands in a red zone), every release is checked against the outstanding set and then freed (so a
// later dereference is a use-after-free), and the event counts are available for conservation checks.
struct TableMon {
    const std::vector<uint8_t> *font = nullptr;
    std::vector<SfntDirEnt> dir;
    std::map<const void *, uint32_t> outstanding;    // ptr -> tag
    std::set<const void *> released;
    long gets = 0, rels = 0, gets_after_make = 0, bad_release = 0, double_release = 0, max_outstanding = 0;
    bool made = false;          // set by the harness when gr_make_face returned
    bool with_release = true;
    // hostile answers: tag -> mode (1 = NULL, 2 = len 0 non-null, 3 = truncated to 3 bytes)
    std::map<uint32_t, int> hostile;
    std::map<uint32_t, std::vector<uint8_t>> overrides;       // tag -> replacement bytes
    std::map<uint32_t, long> gets_by_tag;
    std::string last_after_make_tag;

    void reset(const std::vector<uint8_t> *f) {
        font = f; dir = sfnt_dir(*f); outstanding.clear(); released.clear();
        gets = rels = gets_after_make = bad_release = double_release = max_outstanding = 0; made = false;
        hostile.clear(); overrides.clear(); gets_by_tag.clear(); last_after_make_tag.clear();
    }
    static const void *get(const void *h, unsigned int name, size_t *len) {
        OutLib _o;
        TableMon *m = const_cast<TableMon *>(static_cast<const TableMon *>(h));
        ++m->gets; ++m->gets_by_tag[name];
        if (m->made) {
            ++m->gets_after_make;
            char t[5] = {char(name >> 24), char(name >> 16), char(name >> 8), char(name), 0};
            m->last_after_make_tag = t;
        }
        const uint8_t *src = nullptr; size_t n = 0; bool found = false;
        auto ov = m->overrides.find(name);
        if (ov != m->overrides.end()) { src = ov->second.data(); n = ov->second.size(); found = true; }
        else for (auto &e : m->dir) if (e.tag == name) { src = m->font->data() + e.off; n = e.len; found = true; break; }
        int mode = 0;
        auto hi = m->hostile.find(name);
        if (hi != m->hostile.end()) mode = hi->second;
        if (!found || mode == 1) { if (len) *len = 0; return nullptr; }
        if (mode == 2) n = 0;
        if (mode == 3 && n > 3) n = 3;
        uint8_t *copy = static_cast<uint8_t *>(malloc(n ? n : 1));
        if (n) memcpy(copy, src, n);
        if (len) *len = n;
        m->outstanding[copy] = name;
        if (long(m->outstanding.size()) > m->max_outstanding) m->max_outstanding = long(m->outstanding.size());
        return copy;
    }
    static void rel(const void *h, const void *buf) {
        OutLib _o;
        TableMon *m = const_cast<TableMon *>(static_cast<const TableMon *>(h));
        ++m->rels;
        auto it = m->outstanding.find(buf);
        if (it == m->outstanding.end()) {
            if (m->released.count(buf)) ++m->double_release; else ++m->bad_release;
            return;
        }
        m->outstanding.erase(it);
        m->released.insert(buf);
        free(const_cast<void *>(buf));
    }
    gr_face_ops ops() const {
        gr_face_ops o = {sizeof(gr_face_ops), &TableMon::get, with_release ? &TableMon::rel : nullptr};
        return o;
    }
    // without release_table the copies are ours to free once the face is gone
    void free_outstanding() {
        for (auto &kv : outstanding) free(const_cast<void *>(kv.first));
        outstanding.clear();
    }
};

// ------------------------------------------------------------------ UTF
static inline void enc_utf8(uint32_t c, std::vector<uint8_t> &o) {
    if (c < 0x80) o.push_back(uint8_t(c));
    else if (c < 0x800) { o.push_back(uint8_t(0xC0 | c >> 6)); o.push_back(uint8_t(0x80 | (c & 0x3F))); }
    else if (c < 0x10000) { o.push_back(uint8_t(0xE0 | c >> 12)); o.push_back(uint8_t(0x80 | (c >> 6 & 0x3F))); o.push_back(uint8_t(0x80 | (c & 0x3F))); }
    else { o.push_back(uint8_t(0xF0 | c >> 18)); o.push_back(uint8_t(0x80 | (c >> 12 & 0x3F))); o.push_back(uint8_t(0x80 | (c >> 6 & 0x3F))); o.push_back(uint8_t(0x80 | (c & 0x3F))); }
}
static inline void enc_utf16(uint32_t c, std::vector<uint16_t> &o) {
    if (c < 0x10000) o.push_back(uint16_t(c));
    else { c -= 0x10000; o.push_back(uint16_t(0xD800 | c >> 10)); o.push_back(uint16_t(0xDC00 | (c & 0x3FF))); }
}
// A text in one of the three encodings, held in an exact-size heap buffer.
struct Text {
    gr_encform enc = gr_utf8;
    void *buf = nullptr;
    size_t bytes = 0;
    size_t nchars = 0;
    std::vector<size_t> unit_off;       // code-unit offset of every character
    Text() {}
    Text(const Text &) = delete;
    Text &operator=(const Text &) = delete;
    ~Text() { free(buf); }
    const void *end() const { return static_cast<const char *>(buf) + bytes; }
    void set(gr_encform e, const std::vector<uint32_t> &cps, bool nul_terminate = false) {
        free(buf); enc = e; nchars = cps.size(); unit_off.clear();
        if (e == gr_utf8) {
            std::vector<uint8_t> o;
            for (uint32_t c : cps) { unit_off.push_back(o.size()); enc_utf8(c, o); }
            if (nul_terminate) o.push_back(0);
            bytes = o.size(); buf = malloc(bytes ? bytes : 1); if (bytes) memcpy(buf, o.data(), bytes);
        } else if (e == gr_utf16) {
            std::vector<uint16_t> o;
            for (uint32_t c : cps) { unit_off.push_back(o.size()); enc_utf16(c, o); }
            if (nul_terminate) o.push_back(0);
            bytes = o.size() * 2; buf = malloc(bytes ? bytes : 1); if (bytes) memcpy(buf, o.data(), bytes);
        } else {
            std::vector<uint32_t> o(cps);
            for (size_t i = 0; i < cps.size(); ++i) unit_off.push_back(i);
            if (nul_terminate) o.push_back(0);
            bytes = o.size() * 4; buf = malloc(bytes ? bytes : 1); if (bytes) memcpy(buf, o.data(), bytes);
        }
    }
};
static inline bool is_scalar(uint32_t c) { return c < 0xD800 || (c > 0xDFFF && c <= 0x10FFFF); }

// ------------------------------------------------------------------ MON-DUMP
static const gr_attrCode kDumpAttrs[] = {
    gr_slatAdvX, gr_slatAdvY, gr_slatAttTo, gr_slatAttX, gr_slatAttY, gr_slatAttWithX, gr_slatAttWithY, gr_slatAttLevel,
    gr_slatBreak, gr_slatDir, gr_slatInsert, gr_slatPosX, gr_slatPosY, gr_slatShiftX, gr_slatShiftY, gr_slatJWidth,
    gr_slatSegSplit, gr_slatBidiLevel, gr_slatColFlags, gr_slatColLimitblx, gr_slatColLimitbly, gr_slatColLimittrx,
    gr_slatColLimittry, gr_slatColShiftx, gr_slatColShifty, gr_slatColMargin, gr_slatColMarginWt, gr_slatColExclGlyph,
    gr_slatColExclOffx, gr_slatColExclOffy, gr_slatSeqClass, gr_slatSeqProxClass, gr_slatSeqOrder, gr_slatSeqAboveXoff,
    gr_slatSeqAboveWt, gr_slatSeqBelowXlim, gr_slatSeqBelowWt, gr_slatSeqValignHt, gr_slatSeqValignWt};

struct DumpOpts {
    bool bases = true;          // include gr_cinfo_base (differs between encodings by design)
    bool attrs = true;          // include gr_slot_attr values
    int nuser = 4;              // user attributes dumped
    bool positions = true;
};
static inline void appendf(std::string &s, const char *fmt, ...) __attribute__((format(printf, 2, 3)));
static inline void appendf(std::string &s, const char *fmt, ...) {
    char b[256];
    va_list ap;
    va_start(ap, fmt);
    int n = vsnprintf(b, sizeof b, fmt, ap);
    va_end(ap);
    if (n > 0) s.append(b, size_t(n) < sizeof b ? size_t(n) : sizeof b - 1);
}
// Textual dump; pointers are replaced by stream positions so that two executions can be compared.
static inline std::string dump_seg(gr_segment *seg, const gr_face *face, const gr_font *font, const DumpOpts &o = DumpOpts()) {
    std::string s;
    if (!seg) return "NULL\n";
    unsigned nc = gr_seg_n_cinfo(seg), ns = gr_seg_n_slots(seg);
    appendf(s, "seg nc=%u ns=%u", nc, ns);
    if (o.positions) appendf(s, " adv=%.9g,%.9g", gr_seg_advance_X(seg), gr_seg_advance_Y(seg));
    s += "\n";
    for (unsigned i = 0; i < nc; ++i) {
        const gr_char_info *c = gr_seg_cinfo(seg, i);
        if (!c) { appendf(s, "c%u NULL\n", i); continue; }
        appendf(s, "c%u u=%x b=%d a=%d bw=%d", i, gr_cinfo_unicode_char(c), gr_cinfo_before(c), gr_cinfo_after(c), gr_cinfo_break_weight(c));
        if (o.bases) appendf(s, " base=%zu", gr_cinfo_base(c));
        s += "\n";
    }
    std::map<const gr_slot *, int> pos;
    int k = 0;
    for (const gr_slot *p = gr_seg_first_slot(seg); p && k <= int(ns) + 8; p = gr_slot_next_in_segment(p)) pos[p] = k++;
    auto P = [&](const gr_slot *p) -> int { if (!p) return -1; auto it = pos.find(p); return it == pos.end() ? -2 : it->second; };
    k = 0;
    for (const gr_slot *p = gr_seg_first_slot(seg); p && k <= int(ns) + 8; p = gr_slot_next_in_segment(p), ++k) {
        appendf(s, "s%d g=%u i=%u b=%d a=%d o=%d ins=%d par=%d ch=%d sib=%d", k, gr_slot_gid(p), gr_slot_index(p), gr_slot_before(p),
                gr_slot_after(p), gr_slot_original(p), gr_slot_can_insert_before(p), P(gr_slot_attached_to(p)),
                P(gr_slot_first_attachment(p)), P(gr_slot_next_sibling_attachment(p)));
        if (o.positions) {
            appendf(s, " org=%.9g,%.9g adv=%.9g,%.9g", gr_slot_origin_X(p), gr_slot_origin_Y(p),
                    gr_slot_advance_X(p, face, font), gr_slot_advance_Y(p, face, font));
        }
        if (o.attrs) {
            s += " at=";
            for (gr_attrCode a : kDumpAttrs) appendf(s, "%d,", gr_slot_attr(p, seg, a, 0));
            for (int j = 0; j < 4; ++j) appendf(s, "j%d:%d,%d,%d,%d,", j, gr_slot_attr(p, seg, gr_attrCode(gr_slatJStretch + 0), uint8_t(j)),
                                                 gr_slot_attr(p, seg, gr_slatJShrink, uint8_t(j)), gr_slot_attr(p, seg, gr_slatJStep, uint8_t(j)),
                                                 gr_slot_attr(p, seg, gr_slatJWeight, uint8_t(j)));
            s += " u=";
            for (int u = 0; u < o.nuser; ++u) appendf(s, "%d,", gr_slot_attr(p, seg, gr_slatUserDefn, uint8_t(u)));
        }
        s += "\n";
    }
    return s;
}

// ------------------------------------------------------------------ face self-report
// Everything a face says about itself through the public API, as text (C08, C10, C14, C16 compare it).
static inline std::string label_str(void *lab, gr_encform enc, uint32_t len) {
    if (!lab) return "NULL";
    size_t unit = enc == gr_utf8 ? 1 : enc == gr_utf16 ? 2 : 4;
    return hexs(lab, (size_t(len) + 1) * unit);          // includes the terminator the API promises
}
static inline std::string face_report(const gr_face *f, bool labels = true) {
    std::string s;
    appendf(s, "glyphs=%u nfref=%u nlang=%u\n", gr_face_n_glyphs(f), gr_face_n_fref(f), gr_face_n_languages(f));
    const gr_faceinfo *fi = gr_face_info(f, 0);
    if (fi) appendf(s, "info asc=%u desc=%u upem=%u space=%d bidi=%d ends=%d just=%d\n", fi->extra_ascent, fi->extra_descent, fi->upem, int(fi->space_contextuals), int(fi->has_bidi_pass), int(fi->line_ends), int(fi->justifies));
    unsigned nf = gr_face_n_fref(f);
    static const gr_encform encs[3] = {gr_utf8, gr_utf16, gr_utf32};
    for (unsigned i = 0; i < nf; ++i) {
        const gr_feature_ref *fr = gr_face_fref(f, uint16_t(i));
        unsigned nv = gr_fref_n_values(fr);
        appendf(s, "f%u id=%08x nv=%u found=%d", i, gr_fref_id(fr), nv, gr_face_find_fref(f, gr_fref_id(fr)) == fr);
        for (unsigned v = 0; v < nv; ++v) appendf(s, " %d", gr_fref_value(fr, uint16_t(v)));
        s += "\n";
        if (labels) {
            for (int e = 0; e < 3; ++e) {
                uint16_t lang = 0x0409;
                uint32_t len = 0;
                void *lab = LIB(gr_fref_label(fr, &lang, encs[e], &len));
                appendf(s, " l%d lang=%x len=%u %s\n", 1 << e, lang, len, label_str(lab, encs[e], len).c_str());
                if (lab) LIBV(gr_label_destroy(lab));
            }
            for (unsigned v = 0; v < nv && v < 6; ++v) {
                uint16_t lang = uint16_t(v & 1 ? 0x0409 : 0x040C);
                uint32_t len = 0;
                void *lab = LIB(gr_fref_value_label(fr, uint16_t(v), &lang, gr_utf8, &len));
                appendf(s, " v%u lang=%x len=%u %s\n", v, lang, len, label_str(lab, gr_utf8, len).c_str());
                if (lab) LIBV(gr_label_destroy(lab));
            }
        }
    }
    unsigned nl = gr_face_n_languages(f);
    for (unsigned i = 0; i <= nl; ++i) {
        uint32_t lang = i < nl ? gr_face_lang_by_index(f, uint16_t(i)) : 0;
        gr_feature_val *fv = LIB(gr_face_featureval_for_lang(f, lang));
        appendf(s, "lang %08x:", lang);
        if (fv) { for (unsigned k = 0; k < nf; ++k) appendf(s, " %u", gr_fref_feature_value(gr_face_fref(f, uint16_t(k)), fv)); LIBV(gr_featureval_destroy(fv)); }
        s += "\n";
    }
    static const uint32_t probe[] = {0, 0x20, 0x41, 0x61, 0x7F, 0xA0, 0x300, 0x627, 0x1000, 0x1039, 0x200C, 0x25CC, 0xD7FF, 0xE000, 0xF000, 0xFFFD, 0xFFFE, 0xFFFF, 0x10000, 0x1D510, 0x10FFFF, 0x110000, 0xFFFFFFFFu};
    s += "supp";
    for (uint32_t u : probe) appendf(s, " %d", gr_face_is_char_supported(f, u, 0));
    s += "\n";
    return s;
}

// ------------------------------------------------------------------ MON-STRUCT
struct StructReport {
    std::vector<std::string> c03, c04, c05, c02;
    size_t total() const { return c03.size() + c04.size() + c05.size() + c02.size(); }
};
static inline std::string fmt(const char *f, ...) __attribute__((format(printf, 1, 2)));
static inline std::string fmt(const char *f, ...) {
    char b[400];
    va_list ap;
    va_start(ap, f);
    vsnprintf(b, sizeof b, f, ap);
    va_end(ap);
    return b;
}
// Walks one segment through the public API only.  nchars = number of characters the caller passed;
// gid_limit = gr_face_n_glyphs for fonts tagged real-glyph-classes, 0 to skip the gid clause.
// Returns the slots in stream order.
static inline std::vector<const gr_slot *> walk_struct(gr_segment *seg, size_t nchars, unsigned gid_limit, const gr_face *face,
                                                      const gr_font *font, StructReport &r) {
    unsigned ns = gr_seg_n_slots(seg);
    std::set<const gr_slot *> seen;
    std::vector<const gr_slot *> order;
    const gr_slot *prev = nullptr, *first = gr_seg_first_slot(seg), *last = gr_seg_last_slot(seg);
    bool chain_ok = true;
    for (const gr_slot *p = first; p; p = gr_slot_next_in_segment(p)) {
        if (seen.count(p)) { r.c03.push_back(fmt("chain:cycle next-chain revisits a slot after %zu steps (n_slots=%u)", order.size(), ns)); chain_ok = false; break; }
        seen.insert(p);
        order.push_back(p);
        if (gr_slot_prev_in_segment(p) != prev) r.c03.push_back(fmt("chain:prev prev(slot %zu) is not slot %zu", order.size() - 1, order.size() - 2));
        prev = p;
        if (order.size() > size_t(ns) + 4) { r.c03.push_back(fmt("chain:long next-chain longer than n_slots=%u", ns)); chain_ok = false; break; }
    }
    if (chain_ok && order.size() != ns) r.c03.push_back(fmt("chain:count walk visits %zu slots, gr_seg_n_slots=%u", order.size(), ns));
    if (chain_ok && last != prev) r.c03.push_back(fmt("chain:last gr_seg_last_slot is not the end of the next-chain (n=%u)", ns));
    if ((ns == 0) != (first == nullptr) || (ns == 0) != (last == nullptr)) r.c03.push_back(fmt("chain:empty n_slots=%u first=%p last=%p", ns, (const void *)first, (const void *)last));
    if (nchars && ns > 64 * nchars) r.c02.push_back(fmt("growth n_slots=%u > 64 x nchars=%zu", ns, nchars));
    // indices are a permutation of 0..n-1
    {
        std::vector<char> idx(ns, 0);
        for (const gr_slot *p : order) {
            unsigned i = gr_slot_index(p);
            if (i >= ns) r.c03.push_back(fmt("index:range gr_slot_index=%u n_slots=%u", i, ns));
            else if (idx[i]) r.c03.push_back(fmt("index:dup gr_slot_index=%u occurs twice (n_slots=%u)", i, ns));
            else idx[i] = 1;
        }
    }
    if (!std::isfinite(gr_seg_advance_X(seg)) || !std::isfinite(gr_seg_advance_Y(seg))) r.c03.push_back("finite:segadv segment advance is not finite");
    for (size_t k = 0; k < order.size(); ++k) {
        const gr_slot *p = order[k];
        float ox = gr_slot_origin_X(p), oy = gr_slot_origin_Y(p);
        float ax = gr_slot_advance_X(p, face, font), ay = gr_slot_advance_Y(p, face, font);
        float bx = gr_slot_advance_X(p, face, nullptr), by = gr_slot_advance_Y(p, face, nullptr);
        if (!std::isfinite(ox) || !std::isfinite(oy)) r.c03.push_back(fmt("finite:origin slot %zu origin %g,%g", k, ox, oy));
        if (!std::isfinite(ax) || !std::isfinite(ay) || !std::isfinite(bx) || !std::isfinite(by)) r.c03.push_back(fmt("finite:advance slot %zu", k));
        if (gid_limit && gr_slot_gid(p) >= gid_limit) r.c03.push_back(fmt("gid:range slot %zu gid=%u n_glyphs=%u", k, gr_slot_gid(p), gid_limit));
    }
    // C04 attachment forest
    std::vector<const gr_slot *> bases;
    for (size_t k = 0; k < order.size(); ++k) {
        const gr_slot *p = order[k], *q = p;
        unsigned steps = 0;
        while (gr_slot_attached_to(q)) {
            q = gr_slot_attached_to(q);
            if (!seen.count(q)) { r.c04.push_back(fmt("parent:foreign slot %zu has an ancestor outside the segment", k)); break; }
            if (++steps > ns + 1) { r.c04.push_back(fmt("parent:cycle attached_to chain from slot %zu does not end", k)); break; }
        }
        const gr_slot *par = gr_slot_attached_to(p);
        if (par) {
            int cnt = 0;
            unsigned n = 0;
            for (const gr_slot *c = gr_slot_first_attachment(par); c && n <= ns + 1; c = gr_slot_next_sibling_attachment(c), ++n) {
                if (c == p) ++cnt;
                if (gr_slot_attached_to(c) != par) r.c04.push_back(fmt("child:foreign child chain of slot %zu's parent has a member with another parent", k));
            }
            if (n > ns + 1) r.c04.push_back(fmt("child:cycle child chain of slot %zu's parent does not end", k));
            else if (cnt != 1) r.c04.push_back(fmt("child:count slot %zu occurs %d times in its parent's child chain", k, cnt));
        } else bases.push_back(p);
    }
    if (!bases.empty() && chain_ok) {
        std::map<const gr_slot *, int> indeg;
        for (const gr_slot *b : bases) {
            const gr_slot *nx = gr_slot_next_sibling_attachment(b);
            if (nx) {
                if (gr_slot_attached_to(nx)) r.c04.push_back("bases:sibling-attached a base's next sibling is an attached slot");
                if (!seen.count(nx)) r.c04.push_back("bases:foreign a base's next sibling is outside the segment");
                ++indeg[nx];
            }
        }
        int starts = 0;
        const gr_slot *st = nullptr;
        for (const gr_slot *b : bases) if (!indeg.count(b)) { ++starts; st = b; }
        if (starts != 1) r.c04.push_back(fmt("bases:starts base chain has %d heads for %zu bases", starts, bases.size()));
        else {
            size_t n = 0;
            std::set<const gr_slot *> bs;
            for (const gr_slot *b = st; b && n <= bases.size(); b = gr_slot_next_sibling_attachment(b), ++n) bs.insert(b);
            if (bs.size() != bases.size() || n != bases.size()) r.c04.push_back(fmt("bases:cover base chain visits %zu of %zu bases in %zu steps", bs.size(), bases.size(), n));
        }
    }
    // C05 associations (range clauses; the decoded-character clauses are checked by the caller who knows the text)
    unsigned nc = gr_seg_n_cinfo(seg);
    if (nc != nchars) r.c05.push_back(fmt("ncinfo gr_seg_n_cinfo=%u for %zu characters", nc, nchars));
    std::vector<char> cov(nc, 0);
    for (size_t k = 0; k < order.size(); ++k) {
        int b = gr_slot_before(order[k]), a = gr_slot_after(order[k]), o = gr_slot_original(order[k]);
        if (b < 0 || b >= int(nc) || a < 0 || a >= int(nc) || o < 0 || o >= int(nc))
            r.c05.push_back(fmt("slot-range slot %zu before=%d after=%d original=%d n=%u", k, b, a, o, nc));
        for (int i = b < 0 ? 0 : b; i <= a && i < int(nc); ++i) cov[size_t(i)] = 1;
    }
    if (ns) {
        for (unsigned i = 0; i < nc; ++i) {
            const gr_char_info *ci = gr_seg_cinfo(seg, i);
            if (!cov[i]) r.c05.push_back(fmt("uncovered character %u of %u lies in no slot's [before,after]", i, nc));
            int b = gr_cinfo_before(ci), a = gr_cinfo_after(ci);
            if (b < 0 || b >= int(ns) || a < 0 || a >= int(ns)) r.c05.push_back(fmt("cinfo-range char %u before=%d after=%d n_slots=%u", i, b, a, ns));
        }
    }
    size_t last_base = 0;
    for (unsigned i = 0; i < nc; ++i) {
        size_t b = gr_cinfo_base(gr_seg_cinfo(seg, i));
        if (i && b <= last_base) r.c05.push_back(fmt("base-order char %u base=%zu not above previous %zu", i, b, last_base));
        last_base = b;
    }
    return order;
}

// ------------------------------------------------------------------ font repertoire / text generators
// Code points a face supports (BMP plus a slice of the SMP), found through the public API.
static inline std::vector<uint32_t> repertoire(const gr_face *f, uint32_t limit = 0x20000) {
    std::vector<uint32_t> v;
    for (uint32_t u = 1; u < limit; ++u) {
        if (u >= 0xD800 && u <= 0xDFFF) continue;
        if (gr_face_is_char_supported(f, u, 0)) v.push_back(u);
    }
    return v;
}
static inline std::vector<uint32_t> random_text(Rng &r, const std::vector<uint32_t> &rep, int maxlen, bool hostile) {
    std::vector<uint32_t> t;
    int len = r.chance(0.05) ? 0 : r.range(1, maxlen);
    int mode = int(r.below(6));
    uint32_t a = rep.empty() ? 0x41 : r.pick(rep), b = rep.empty() ? 0x42 : r.pick(rep);
    for (int i = 0; i < len; ++i) {
        uint32_t c;
        switch (mode) {
        case 0: c = a; break;                                       // run of one character (loop limits)
        case 1: c = (i & 1) ? a : b; break;                         // alternation
        default: c = rep.empty() ? uint32_t(0x20 + r.below(0x60)) : r.pick(rep); break;
        }
        if (hostile && r.chance(0.08)) {
            static const uint32_t odd[] = {0x20, 0xA0, 0x200B, 0x200C, 0x200D, 0x200E, 0x200F, 0x202A, 0x202E, 0x2028, 0xFFFD, 0xFFFE, 0xFFFF,
                                           0x10000, 0x10FFFF, 0x1F600, 0xE000, 0x0300, 0x0301, 0x064B, 0x0651, 0x1039, 0x103A, 0x25CC, 0x7F, 0x1};
            c = odd[r.below(sizeof odd / sizeof odd[0])];
        }
        t.push_back(c);
    }
    return t;
}
// lines of a UTF-8 text file as code point vectors
static inline std::vector<std::vector<uint32_t>> text_lines(const std::string &path, size_t maxlines = 100000) {
    std::vector<std::vector<uint32_t>> out;
    std::vector<uint8_t> d;
    if (!read_file(path, d)) return out;
    std::vector<uint32_t> cur;
    size_t i = 0;
    while (i < d.size() && out.size() < maxlines) {
        uint32_t c = d[i];
        int n = c < 0x80 ? 1 : c < 0xE0 ? 2 : c < 0xF0 ? 3 : 4;
        if (i + size_t(n) > d.size()) break;
        if (n == 2) c = (c & 0x1F) << 6 | (d[i + 1] & 0x3F);
        else if (n == 3) c = (c & 0x0F) << 12 | (d[i + 1] & 0x3F) << 6 | (d[i + 2] & 0x3F);
        else if (n == 4) c = (c & 0x07) << 18 | (d[i + 1] & 0x3F) << 12 | (d[i + 2] & 0x3F) << 6 | (d[i + 3] & 0x3F);
        i += size_t(n);
        if (c == '\n' || c == '\r') { if (!cur.empty()) out.push_back(cur); cur.clear(); }
        else if (c != 0xFEFF) cur.push_back(c);
    }
    if (!cur.empty()) out.push_back(cur);
    return out;
}
static inline std::string cps_str(const std::vector<uint32_t> &t, size_t maxn = 40) {
    std::string s;
    for (size_t i = 0; i < t.size() && i < maxn; ++i) appendf(s, "%s%X", i ? " " : "", t[i]);
    if (t.size() > maxn) appendf(s, " ...(%zu)", t.size());
    return s;
}

}  // namespace vf
