// Differential monitors over pairs / families of executions that a property says must agree.
//   opts   (C10) 16 configurations = face options 0..7 x {table callbacks, file}: self-report and every segment dump equal
//   scale  (C15) font = NULL vs unhinted font of P ppm: identical structure, positions scaled by P/upem within rounding
//   pair   (C14a and others) two font files that must be indistinguishable: self-report and every segment dump equal
#include "common.hpp"
#include <algorithm>
#include <iterator>
using namespace vf;
static Stats st;
// H5: Slot::finalise decides two comparisons on scaled positions (attached slot without advance left of 0?  cluster minimum left of
// the cluster start?).  The scale part records the outcome of every such decision in the final positioning of the design-unit run and
// of the scaled run; when the same decision comes out differently although the scaled operands differ by no more than the rounding
// tolerance, the design-unit layout sits exactly on that discontinuity: such divergences are keyed separately (known finding KF-C15-2).
struct FinDec { int site; bool lt; double gap; };
static std::vector<FinDec> g_dec[2];
static long g_tie_calls = 0;
extern "C" void gr_verif_finalise_test(const void *, const void *, int site, float value, float threshold, float jump, int with_font) {
    ++g_tie_calls;
    if (site == 1 && jump == 0.f) threshold = value;           // equal operands give the same layout either way: never a flip
    g_dec[with_font ? 1 : 0].push_back({site, value < threshold, std::fabs(double(value) - double(threshold))});
}
// smallest operand gap among the decisions of the scaled run that came out differently from the design-unit run (1e30: none)
static double flipped_gap() {
    const std::vector<FinDec> &A = g_dec[0], &B = g_dec[1];
    if (B.empty() || A.size() < B.size()) return 1e30;
    size_t off = A.size() - B.size();                          // the final positioning is the last thing gr_make_seg does
    double g = 1e30;
    for (size_t i = 0; i < B.size(); ++i) {
        if (A[off + i].site != B[i].site) return 1e30;
        if (A[off + i].lt != B[i].lt) g = std::min(g, B[i].gap);
    }
    return g;
}
struct CaseParams {
    std::vector<uint32_t> text;
    int enc, dir, fmode;
    uint32_t lang;
    std::vector<std::pair<unsigned, uint16_t>> sets;       // (feature index, value)
    float ppm;                                              // 0 = NULL font
};
static CaseParams draw(Rng &r, const gr_face *f, const std::vector<uint32_t> &rep, const std::vector<std::vector<uint32_t>> &lines) {
    CaseParams c;
    int kind = int(r.below(10));
    if (!lines.empty() && kind < 5) {
        c.text = r.pick(lines);
        if (c.text.size() > 6 && r.chance(0.5)) { size_t a0 = r.below(uint32_t(c.text.size() - 2)); size_t n = 1 + r.below(uint32_t(c.text.size() - a0)); c.text = std::vector<uint32_t>(c.text.begin() + long(a0), c.text.begin() + long(a0 + n)); }
    } else c.text = random_text(r, rep, r.chance(0.03) ? 400 : 48, kind >= 8);
    for (auto &u : c.text) if (u == 0 || !is_scalar(u)) u = 0xFFFD;
    c.enc = int(r.below(3));
    c.dir = int(r.below(8));
    c.fmode = int(r.below(4));
    unsigned nf = gr_face_n_fref(f), nl = gr_face_n_languages(f);
    c.lang = (c.fmode == 1 && nl) ? gr_face_lang_by_index(f, uint16_t(r.below(nl))) : 0;
    if (c.fmode >= 2 && nf) {
        int nset = r.range(1, 4);
        for (int i = 0; i < nset; ++i) {
            unsigned fi = r.below(nf);
            const gr_feature_ref *fr = gr_face_fref(f, uint16_t(fi));
            unsigned nv = gr_fref_n_values(fr);
            uint16_t v = (nv && r.chance(0.7)) ? uint16_t(gr_fref_value(fr, uint16_t(r.below(nv)))) : uint16_t(r.chance(0.5) ? r.below(4) : r.below(65536));
            c.sets.push_back({fi, v});
        }
    }
    static const float ppms[] = {0.5f, 1.0f, 7.3f, 12.0f, 16.0f, 96.5f, 1000.0f, 2048.0f, 4096.0f};
    c.ppm = r.chance(0.3) ? 0.0f : r.chance(0.7) ? ppms[r.below(sizeof ppms / sizeof ppms[0])] : float(std::exp(std::log(1e-3) + r.unit() * (std::log(4096.0) - std::log(1e-3))));
    return c;
}
static gr_feature_val *features(const gr_face *f, const CaseParams &c) {
    if (c.fmode == 0) return nullptr;
    gr_feature_val *fv = LIB(gr_face_featureval_for_lang(f, c.lang));
    for (auto &s : c.sets) gr_fref_set_feature_value(gr_face_fref(f, uint16_t(s.first)), s.second, fv);
    return fv;
}
static const gr_encform kEnc[3] = {gr_utf8, gr_utf16, gr_utf32};
static gr_segment *shape(const gr_face *f, const gr_font *font, const CaseParams &c) {
    Text tx;
    tx.set(kEnc[c.enc], c.text, false);
    gr_feature_val *fv = features(f, c);
    gr_segment *s = LIB(gr_make_seg(font, f, 0, fv, kEnc[c.enc], tx.buf, c.text.size(), c.dir));
    if (fv) LIBV(gr_featureval_destroy(fv));
    return s;
}
static std::string first_diff(const std::string &a, const std::string &b) {
    size_t i = 0, line = 1, ls = 0;
    while (i < a.size() && i < b.size() && a[i] == b[i]) { if (a[i] == '\n') { ++line; ls = i + 1; } ++i; }
    size_t ea = a.find('\n', i), eb = b.find('\n', i);
    return fmt("line %zu: [%s] vs [%s]", line, a.substr(ls, (ea == std::string::npos ? a.size() : ea) - ls).substr(0, 150).c_str(),
               b.substr(ls, (eb == std::string::npos ? b.size() : eb) - ls).substr(0, 150).c_str());
}

int main(int argc, char **argv) {
    Args a;
    a.parse(argc, argv);
    install_handlers();
    AllocMon::install();
    std::string part = a.get("part", "opts"), fontpath = a.get("font");
    std::vector<std::vector<uint32_t>> lines;
    if (!a.get("texts").empty()) lines = text_lines(a.get("texts"), 4000);
    if (part == "opts") {
        std::vector<uint8_t> data;
        if (!read_file(fontpath, data)) internal_fail("cannot read %s", fontpath.c_str());
        gr_face *faces[16];
        TableMon mons[8];
        set_case(-1, "creating 16 faces of %s", fontpath.c_str());
        for (unsigned o = 0; o < 8; ++o) {
            mons[o].reset(&data);
            gr_face_ops ops = mons[o].ops();
            faces[o] = LIB(gr_make_face_with_ops(&mons[o], &ops, o));
            mons[o].made = true;
            faces[8 + o] = LIB(gr_make_file_face(fontpath.c_str(), o));
        }
        if (!faces[0]) { st.add("fonts_not_loaded"); st.print(); return 0; }
        // repertoire = union of what a direct-cmap face (options 0) and a cached-cmap face (options 4) report, so that a code point
        // only one of the two lookup paths finds is compared (and drawn into texts) too
        std::vector<uint32_t> rep = repertoire(faces[0], 0x20000);
        if (faces[4]) {
            std::vector<uint32_t> rep4 = repertoire(faces[4], 0x20000), u;
            std::set_union(rep.begin(), rep.end(), rep4.begin(), rep4.end(), std::back_inserter(u));
            if (u.size() != rep.size()) st.add("repertoire_differs_between_cmap_paths");
            rep.swap(u);
        }
        st.add("repertoire_code_points", double(rep.size()));
        std::string rep0 = face_report(faces[0]);
        for (unsigned i = 1; i < 16; ++i) {
            set_case(-1, "self-report font=%s config=%u", fontpath.c_str(), i);
            if (!faces[i]) { V("load", "options=%u source=%s does not load although options=0/callbacks does", i & 7, i & 8 ? "file" : "callbacks"); continue; }
            std::string ri = face_report(faces[i]);
            st.add("reports_compared");
            if (ri != rep0) V("self-report", "options=%u source=%s: %s", i & 7, i & 8 ? "file" : "callbacks", first_diff(rep0, ri).c_str());
            // character support agrees on every code point of the repertoire plus their neighbours
            for (uint32_t u : rep) for (uint32_t d = 0; d < 2; ++d)
                if (gr_face_is_char_supported(faces[i], u + d, 0) != gr_face_is_char_supported(faces[0], u + d, 0)) { V("char-support", "options=%u source=%s usv=%x", i & 7, i & 8 ? "file" : "callbacks", u + d); break; }
        }
        for (long k = 0; k < a.cases; ++k) {
            if (!a.runs(k)) continue;
            Rng r(a.case_seed(k));
            CaseParams c = draw(r, faces[0], rep, lines);
            std::string ref;
            for (unsigned i = 0; i < 16; ++i) {
                if (!faces[i]) continue;
                set_case(k, "opts font=%s config=%u enc=%d dir=%d ppm=%g fmode=%d text=%s", fontpath.c_str(), i, 1 << c.enc, c.dir, c.ppm, c.fmode, cps_str(c.text, 20).c_str());
                gr_font *font = c.ppm > 0 ? LIB(gr_make_font(c.ppm, faces[i])) : nullptr;
                gr_segment *s = shape(faces[i], font, c);
                std::string d = dump_seg(s, faces[i], font);
                if (s) LIBV(gr_seg_destroy(s));
                if (font) LIBV(gr_font_destroy(font));
                st.add("segments");
                if (i == 0) { ref = d; if (d != "NULL\n" && c.text.size() >= 2) st.add("nontrivial"); }
                else if (d != ref) V("segment-differs", "options=%u source=%s: %s", i & 7, i & 8 ? "file" : "callbacks", first_diff(ref, d).c_str());
            }
            if (k % 499 == 0) printf("X {\"part\":\"opts\",\"font\":%s,\"text\":\"%s\",\"dir\":%d,\"ppm\":%g,\"configs\":16}\n", jstr(fontpath.substr(fontpath.rfind('/') + 1)).c_str(), cps_str(c.text, 12).c_str(), c.dir, c.ppm);
        }
        for (unsigned i = 0; i < 16; ++i) if (faces[i]) LIBV(gr_face_destroy(faces[i]));
        for (unsigned o = 0; o < 8; ++o) if (!mons[o].outstanding.empty()) st.add("xobs_tables_outstanding");
    } else if (part == "scale") {
        gr_face *f = LIB(gr_make_file_face(fontpath.c_str(), a.geti("opt", 0)));
        if (!f) { st.add("fonts_not_loaded"); st.print(); return 0; }
        std::vector<uint32_t> rep = repertoire(f, 0x20000);
        const gr_faceinfo *fi = gr_face_info(f, 0);
        double upem = fi ? fi->upem : 1000;
        DumpOpts structure;
        structure.positions = false;
        structure.attrs = false;
        double worst = 0;
        for (long k = 0; k < a.cases; ++k) {
            if (!a.runs(k)) continue;
            Rng r(a.case_seed(k));
            CaseParams c = draw(r, f, rep, lines);
            if (c.ppm <= 0) c.ppm = 12.0f;
            if (r.chance(0.03)) c.ppm = float(upem);        // s = 1 sanity point
            if (a.geti("fixdir", -1) >= 0 && !lines.empty()) {
                // witness replay: case k = line k of --texts as it stands, given direction and size, default features
                c = CaseParams();
                c.text = lines[size_t(k) % lines.size()];
                c.enc = 2; c.dir = int(a.geti("fixdir", 0)); c.fmode = 0; c.lang = 0; c.ppm = float(a.geti("fixppm", 12));
            }
            set_case(k, "scale font=%s enc=%d dir=%d ppm=%.9g fmode=%d text=%s", fontpath.c_str(), 1 << c.enc, c.dir, c.ppm, c.fmode, cps_str(c.text, 20).c_str());
            gr_font *font = LIB(gr_make_font(c.ppm, f));
            g_dec[0].clear(); g_dec[1].clear();
            const long viol_before_case = g_viol;
            gr_segment *A = shape(f, nullptr, c), *B = shape(f, font, c);
            const double fgap = flipped_gap();
            st.add("pairs");
            if ((A == nullptr) != (B == nullptr)) V("null-differs", "font=NULL gives %s, ppm=%g gives %s", A ? "a segment" : "NULL", c.ppm, B ? "a segment" : "NULL");
            else if (A) {
                std::string da = dump_seg(A, f, nullptr, structure), db = dump_seg(B, f, font, structure);
                if (getenv("VF_SCALEDBG")) {
                    DumpOpts full;
                    printf("D design:\n%s\nD scaled:\n%s\n", dump_seg(A, f, nullptr, full).c_str(), dump_seg(B, f, font, full).c_str());
                }
                if (da != db) V("structure", "ppm=%g: %s", c.ppm, first_diff(da, db).c_str());
                else {
                    const float s = c.ppm / float(upem);      // exactly as Font computes it
                    unsigned ns = gr_seg_n_slots(A);
                    double M = upem;
                    for (const gr_slot *p = gr_seg_first_slot(A); p; p = gr_slot_next_in_segment(p)) {
                        M = std::max(M, double(std::fabs(gr_slot_origin_X(p)))); M = std::max(M, double(std::fabs(gr_slot_origin_Y(p))));
                        M = std::max(M, double(std::fabs(gr_slot_advance_X(p, f, nullptr))));
                    }
                    M = std::max(M, double(std::fabs(gr_seg_advance_X(A))));
                    double tol = 2.0 * (2.0 * ns + 4.0) * std::ldexp(1.0, -23) * double(s) * M;
                    // finalise() recurses over children AND siblings and gives up beyond depth 100 without positioning the slot:
                    // such slots keep a stale (design-unit) origin whatever the font - known finding, keyed separately.
                    // depth(s) = depth(parent) + 1 + index of s in its parent's child chain; bases have depth 0.
                    std::map<const gr_slot *, int> depthA;
                    std::vector<char> deep;
                    {
                        std::vector<const gr_slot *> ord;
                        for (const gr_slot *p = gr_seg_first_slot(A); p; p = gr_slot_next_in_segment(p)) ord.push_back(p);
                        // parents may come after their children in stream order: iterate to a fixed point (bounded)
                        for (int round = 0; round < 4 && depthA.size() < ord.size(); ++round)
                            for (const gr_slot *p : ord) {
                                if (depthA.count(p)) continue;
                                const gr_slot *par = gr_slot_attached_to(p);
                                if (!par) { depthA[p] = 0; continue; }
                                auto it = depthA.find(par);
                                if (it == depthA.end()) continue;
                                int k = 0;
                                for (const gr_slot *c = gr_slot_first_attachment(par); c && c != p && k < 100000; c = gr_slot_next_sibling_attachment(c)) ++k;
                                depthA[p] = it->second + 1 + k;
                            }
                        for (const gr_slot *p : ord) { auto it = depthA.find(p); deep.push_back(it == depthA.end() || it->second > 100); }
                    }
                    auto cmp = [&](const char *what, int idx, double av, double bv) {
                        double err = std::fabs(bv - double(s) * av);
                        bool isdeep = idx >= 0 && size_t(idx) < deep.size() && deep[size_t(idx)];
                        if (isdeep) { if (err > tol) V(fmt("scale:%s:beyond-attachment-depth-100", what).c_str(), "slot %d lies deeper than 100 in the child/sibling recursion of finalise(): design %.9g, pixel %.9g", idx, av, bv); else st.add("deep_slots_ok"); return; }
                        if (err > tol && fgap <= tol) { V(fmt("scale:%s:finalise-tie", what).c_str(), "slot %d: design %.9g x %.9g = %.9g but pixel value %.9g; a finalise() comparison came out differently in the scaled run on operands only %.3g apart", idx, av, double(s), double(s) * av, bv, fgap); return; }
                        if (tol > 0) worst = std::max(worst, err / tol);
                        if (err > tol) V(fmt("scale:%s", what).c_str(), "slot %d: design %.9g x %.9g = %.9g but pixel value %.9g (error %.3g > tol %.3g)", idx, av, double(s), double(s) * av, bv, err, tol);
                    };
                    int i = 0;
                    for (const gr_slot *p = gr_seg_first_slot(A), *q = gr_seg_first_slot(B); p && q; p = gr_slot_next_in_segment(p), q = gr_slot_next_in_segment(q), ++i) {
                        cmp("origin-x", i, gr_slot_origin_X(p), gr_slot_origin_X(q));
                        cmp("origin-y", i, gr_slot_origin_Y(p), gr_slot_origin_Y(q));
                        cmp("advance-x", i, gr_slot_advance_X(p, f, nullptr), gr_slot_advance_X(q, f, font));
                        cmp("advance-y", i, gr_slot_advance_Y(p, f, nullptr), gr_slot_advance_Y(q, f, font));
                        // the same slot queried with the font scales its own design advance
                        cmp("advance-query", i, gr_slot_advance_X(p, f, nullptr), gr_slot_advance_X(p, f, font));
                    }
                    cmp("seg-advance-x", -1, gr_seg_advance_X(A), gr_seg_advance_X(B));
                    cmp("seg-advance-y", -1, gr_seg_advance_Y(A), gr_seg_advance_Y(B));
                    st.add("slot_comparisons", double(ns));
                    if (fgap <= tol) st.add("pairs_with_a_flipped_finalise_decision");
                    st.add("finalise_decisions_compared", double(g_dec[1].size()));
                    if (ns >= 2 && std::fabs(double(s) - 1.0) > 1e-3 && gr_seg_advance_X(A) != 0) st.add("nontrivial");
                    // ---- justification space is part of the statement: cut both segments at the same slot, justify every line to the same
                    // width (design units for A, x s for B) and compare again.  justify() truncates each glyph's share to whole steps of
                    // the font's step attribute, so one rounding flip moves a glyph by a step: this comparison is deliberately coarse
                    // (a few design units per slot) - it is there for scale factors missing or doubled in the justification branch.
                    if (g_viol == viol_before_case && ns >= 3 && r.chance(0.35) && gr_seg_advance_X(A) > 0) {
                        std::vector<gr_slot *> oa, ob;
                        for (const gr_slot *p = gr_seg_first_slot(A); p; p = gr_slot_next_in_segment(p)) oa.push_back(const_cast<gr_slot *>(p));
                        for (const gr_slot *p = gr_seg_first_slot(B); p; p = gr_slot_next_in_segment(p)) ob.push_back(const_cast<gr_slot *>(p));
                        size_t cut = r.chance(0.7) ? 1 + r.below(uint32_t(ns - 1)) : 0;
                        // cut only between clusters (a base on both sides keeps each line a set of whole clusters)
                        while (cut && cut < ns && gr_slot_attached_to(oa[cut])) ++cut;
                        if (cut >= ns) cut = 0;
                        if (cut) { LIBV(gr_slot_linebreak_before(oa[cut])); LIBV(gr_slot_linebreak_before(ob[cut])); }
                        const double wf = 0.7 + 0.9 * r.unit();
                        const int flags = int(r.below(4));
                        double worstj = 0;
                        for (int line = 0; line < (cut ? 2 : 1); ++line) {
                            size_t b0 = line ? cut : 0, b1 = line || !cut ? ns : cut;
                            double nat = 0;
                            for (size_t i = b0; i < b1; ++i) if (!gr_slot_attached_to(oa[i])) nat += gr_slot_advance_X(oa[i], f, nullptr);
                            const double W = std::floor(nat * wf) + 0.5;
                            g_dec[0].clear(); g_dec[1].clear();
                            float ra = LIB(gr_seg_justify(A, oa[b0], nullptr, W, gr_justFlags(flags), nullptr, nullptr));
                            float rb = LIB(gr_seg_justify(B, ob[b0], font, W * double(s), gr_justFlags(flags), nullptr, nullptr));
                            const double jgap = flipped_gap();         // the re-positioning inside justify() takes the same decisions (KF-C15-2)
                            const double tolj = tol + double(s) * 2.0 * double(b1 - b0 + 2);
                            auto cj = [&](const char *what, size_t idx, double av, double bv) {
                                double err = std::fabs(bv - double(s) * av);
                                worstj = std::max(worstj, err / tolj);
                                if (err > tolj && jgap <= tol) { V(fmt("scale:justified:%s:finalise-tie", what).c_str(), "line %d slot %zu: design %.9g x %.9g = %.9g but pixel value %.9g; a finalise() comparison came out differently in the scaled run on operands only %.3g apart", line, idx, av, double(s), double(s) * av, bv, jgap); return; }
                                if (err > tolj) V(fmt("scale:justified:%s", what).c_str(), "line %d (slots %zu..%zu, width %.1f design units, flags %d), slot %zu: design %.9g x %.9g = %.9g but pixel value %.9g", line, b0, b1, W, flags, idx, av, double(s), double(s) * av, bv);
                            };
                            cj("width", b0, ra, rb);
                            for (size_t i = b0; i < b1; ++i) {
                                cj("origin-x", i, gr_slot_origin_X(oa[i]), gr_slot_origin_X(ob[i]));
                                cj("origin-y", i, gr_slot_origin_Y(oa[i]), gr_slot_origin_Y(ob[i]));
                                cj("advance-x", i, gr_slot_advance_X(oa[i], f, nullptr), gr_slot_advance_X(ob[i], f, font));
                            }
                            st.add("justified_lines_compared");
                            if (std::fabs(double(ra) - nat) > 1.0) st.add("justified_lines_whose_width_changed");
                        }
                        st.mx("max_justified_error_over_tolerance_x1e6", worstj * 1e6);
                    }
                }
            }
            if (A) LIBV(gr_seg_destroy(A));
            if (B) LIBV(gr_seg_destroy(B));
            LIBV(gr_font_destroy(font));
            if (k % 499 == 0) printf("X {\"part\":\"scale\",\"font\":%s,\"text\":\"%s\",\"dir\":%d,\"ppm\":%.6g}\n", jstr(fontpath.substr(fontpath.rfind('/') + 1)).c_str(), cps_str(c.text, 12).c_str(), c.dir, c.ppm);
        }
        st.mx("max_error_over_tolerance_x1e6", worst * 1e6);
        st.add("finalise_tests_seen", double(g_tie_calls));
        LIBV(gr_face_destroy(f));
    } else if (part == "hashes") {
        // one line per case: hash of the canonical dump; the orchestrator runs two builds (e.g. direct- and call-threaded
        // interpreter, hooks on and off) with the same seeds and compares the lines
        gr_face *f = LIB(gr_make_file_face(fontpath.c_str(), unsigned(a.geti("opt", 0))));
        if (!f) { st.add("fonts_not_loaded"); st.print(); return 0; }
        std::vector<uint32_t> rep = repertoire(f, 0x20000);
        for (long k = 0; k < a.cases; ++k) {
            if (!a.runs(k)) continue;
            Rng r(a.case_seed(k));
            CaseParams c = draw(r, f, rep, lines);
            set_case(k, "hashes font=%s enc=%d dir=%d ppm=%g text=%s", fontpath.c_str(), 1 << c.enc, c.dir, c.ppm, cps_str(c.text, 20).c_str());
            gr_font *font = c.ppm > 0 ? LIB(gr_make_font(c.ppm, f)) : nullptr;
            gr_segment *s = shape(f, font, c);
            std::string d = dump_seg(s, f, font);
            printf("D H %ld %ld %016llx %zu %s\n", a.shard, k, (unsigned long long)fnv(d.data(), d.size()), d.size(), cps_str(c.text, 8).c_str());
            st.add("segments");
            if (s && c.text.size() >= 2) st.add("nontrivial");
            if (s) LIBV(gr_seg_destroy(s));
            if (font) LIBV(gr_font_destroy(font));
        }
        LIBV(gr_face_destroy(f));
    } else if (part == "pair") {
        std::string font2 = a.get("font2");
        unsigned opt = unsigned(a.geti("opt", 0));
        { std::vector<uint8_t> probe; if (!read_file(fontpath, probe) || !read_file(font2, probe)) internal_fail("pair: font file missing (%s / %s)", fontpath.c_str(), font2.c_str()); }
        gr_face *f1 = LIB(gr_make_file_face(fontpath.c_str(), opt)), *f2 = LIB(gr_make_file_face(font2.c_str(), opt));
        set_case(-1, "pair %s vs %s", fontpath.c_str(), font2.c_str());
        if (!f1) { st.add("fonts_not_loaded"); if (f2) { V("pair:load", "%s loads but %s does not", font2.c_str(), fontpath.c_str()); LIBV(gr_face_destroy(f2)); } st.print(); return 0; }
        if (!f2) { V("pair:load", "%s loads but %s does not", fontpath.c_str(), font2.c_str()); LIBV(gr_face_destroy(f1)); st.print(); return 0; }
        st.add("fonts_loaded", 2);
        std::string r1 = face_report(f1), r2 = face_report(f2);
        if (r1 != r2) V("pair:self-report", "%s", first_diff(r1, r2).c_str());
        std::vector<uint32_t> rep = repertoire(f1, 0x20000);
        {   // the input domain must not come from one side of the comparison only
            std::vector<uint32_t> rep2 = repertoire(f2, 0x20000), u;
            if (rep2 != rep) V("pair:repertoire", "the two fonts support different code points (%zu vs %zu)", rep.size(), rep2.size());
            std::set_union(rep.begin(), rep.end(), rep2.begin(), rep2.end(), std::back_inserter(u));
            rep.swap(u);
        }
        for (long k = 0; k < a.cases; ++k) {
            if (!a.runs(k)) continue;
            Rng r(a.case_seed(k));
            CaseParams c = draw(r, f1, rep, lines);
            set_case(k, "pair %s vs %s enc=%d dir=%d ppm=%g text=%s", fontpath.c_str(), font2.c_str(), 1 << c.enc, c.dir, c.ppm, cps_str(c.text, 20).c_str());
            gr_font *n1 = c.ppm > 0 ? LIB(gr_make_font(c.ppm, f1)) : nullptr, *n2 = c.ppm > 0 ? LIB(gr_make_font(c.ppm, f2)) : nullptr;
            gr_segment *s1 = shape(f1, n1, c), *s2 = shape(f2, n2, c);
            std::string d1 = dump_seg(s1, f1, n1), d2 = dump_seg(s2, f2, n2);
            if (d1 != d2) V("pair:segment-differs", "%s", first_diff(d1, d2).c_str());
            st.add("segments", 2);
            if (d1 != "NULL\n" && c.text.size() >= 2) st.add("nontrivial");
            if (s1) LIBV(gr_seg_destroy(s1));
            if (s2) LIBV(gr_seg_destroy(s2));
            if (n1) LIBV(gr_font_destroy(n1));
            if (n2) LIBV(gr_font_destroy(n2));
            if (k % 499 == 0) printf("X {\"part\":\"pair\",\"a\":%s,\"b\":%s,\"text\":\"%s\",\"dir\":%d}\n", jstr(fontpath.substr(fontpath.rfind('/') + 1)).c_str(), jstr(font2.substr(font2.rfind('/') + 1)).c_str(), cps_str(c.text, 12).c_str(), c.dir);
        }
        LIBV(gr_face_destroy(f1));
        LIBV(gr_face_destroy(f2));
    } else internal_fail("unknown part");
    st.add("oracle_firings", double(g_viol));
    st.print();
    return 0;
}
