// C20: tag/string conversion contracts.  Parts:
//   str    gr_str_to_tag on C strings held in exact-size heap buffers (len+1 bytes): exhaustive for length 0..2,
//          boundary/random for 3..8.  Oracle: big-endian tag of the first min(4,len) bytes (unsigned), zero padded;
//          ASan catches any read past the terminator.
//   tag    gr_tag_to_str into an exactly-4-byte heap buffer (ASan catches a 5th byte), bytes compared, round trip.
//   pad    space-padded vs zero-padded tags at every tag-taking entry point of a real face.
#include "common.hpp"
using namespace vf;

static uint32_t ref_tag(const uint8_t *s, size_t len) {
    uint32_t t = 0;
    for (size_t i = 0; i < 4; ++i) t = t << 8 | (i < len ? s[i] : 0);
    return t;
}
static Stats st;

static void one_str(const uint8_t *s, size_t len) {
    char *buf = static_cast<char *>(malloc(len + 1));
    memcpy(buf, s, len);
    buf[len] = 0;
    uint32_t got = gr_str_to_tag(buf), want = ref_tag(s, len);
    st.add("str_calls");
    if (got != want) V("str_to_tag:value", "len=%zu bytes=%s got=%08x want=%08x", len, hexs(s, len).c_str(), got, want);
    if (len == 4) {
        char *o = static_cast<char *>(malloc(4));
        gr_tag_to_str(got, o);
        if (memcmp(o, s, 4) != 0) V("roundtrip", "bytes=%s back=%s", hexs(s, 4).c_str(), hexs(o, 4).c_str());
        free(o);
        st.add("roundtrips");
    }
    free(buf);
}

static std::string dump_fv(const gr_face *f, const gr_feature_val *fv) {
    std::string s;
    if (!fv) return "NULL";
    unsigned n = gr_face_n_fref(f);
    for (unsigned i = 0; i < n; ++i) appendf(s, "%u,", gr_fref_feature_value(gr_face_fref(f, uint16_t(i)), fv));
    return s;
}

int main(int argc, char **argv) {
    Args a;
    a.parse(argc, argv);
    install_handlers();
    std::string part = a.get("part", "str");
    if (part == "str") {
        // cases 0..65280: exhaustive length 0..2 (bytes 1..255); beyond: boundary/random length 3..8
        static const uint8_t bnd[] = {0x01, 0x20, 0x41, 0x61, 0x7F, 0x80, 0x81, 0xA0, 0xC3, 0xFE, 0xFF};
        for (long k = 0; k < a.cases; ++k) {
            long g = k * a.nshards + a.shard;
            if (!a.runs(k)) continue;
            uint8_t s[8];
            size_t len;
            if (g == 0) len = 0;
            else if (g <= 255) { len = 1; s[0] = uint8_t(g); }
            else if (g <= 255 + 255 * 255) { long x = g - 256; len = 2; s[0] = uint8_t(1 + x / 255); s[1] = uint8_t(1 + x % 255); }
            else {
                Rng r(a.case_seed(k));
                len = size_t(r.range(3, 8));
                for (size_t i = 0; i < len; ++i) s[i] = r.chance(0.5) ? bnd[r.below(sizeof bnd)] : uint8_t(1 + r.below(255));
            }
            set_case(k, "str_to_tag len=%zu bytes=%s", len, hexs(s, len).c_str());
            one_str(s, len);
            st.count("len", std::to_string(len));
            if (k % 9973 == 0) printf("X {\"part\":\"str\",\"len\":%zu,\"bytes\":\"%s\",\"tag\":\"%08x\"}\n", len, hexs(s, len).c_str(), ref_tag(s, len));
        }
    } else if (part == "tag") {
        static const uint32_t bt[] = {0, 1, 0xFF, 0x100, 0x20202020, 0x7F7F7F7F, 0x80808080, 0xFFFFFFFF, 0x61626364, 0x00FF00FF, 0xFF00FF00, 0x80000000, 0x7FFFFFFF};
        for (long k = 0; k < a.cases; ++k) {
            if (!a.runs(k)) continue;
            long g = k * a.nshards + a.shard;
            Rng r(a.case_seed(k));
            uint32_t t = g < long(sizeof bt / sizeof bt[0]) ? bt[g] : (g & 1) ? uint32_t(r.next()) : uint32_t(uint64_t(g) * 2654435761ULL);
            set_case(k, "tag_to_str tag=%08x", t);
            char *o = static_cast<char *>(malloc(4));
            memset(o, 0x5A, 4);
            gr_tag_to_str(t, o);
            uint8_t want[4] = {uint8_t(t >> 24), uint8_t(t >> 16), uint8_t(t >> 8), uint8_t(t)};
            if (memcmp(o, want, 4) != 0) V("tag_to_str:bytes", "tag=%08x wrote=%s", t, hexs(o, 4).c_str());
            // inverse on four-character tags (no NUL inside)
            if (want[0] && want[1] && want[2] && want[3]) {
                char *z = static_cast<char *>(malloc(5));
                memcpy(z, o, 4);
                z[4] = 0;
                uint32_t back = gr_str_to_tag(z);
                if (back != t) V("roundtrip", "tag=%08x str_to_tag(tag_to_str)=%08x", t, back);
                free(z);
                st.add("roundtrips");
            }
            free(o);
            st.add("tag_calls");
            if (k % 4999 == 0) printf("X {\"part\":\"tag\",\"tag\":\"%08x\"}\n", t);
        }
    } else if (part == "pad") {
        std::string fontpath = a.get("font");
        gr_face *f = gr_make_file_face(fontpath.c_str(), gr_face_default);
        if (!f) internal_fail("cannot load %s", fontpath.c_str());
        std::vector<uint32_t> rep = repertoire(f, 0x3000);
        // candidate contents: every language tag and feature id of the font, plus random ones
        std::vector<uint32_t> tags;
        for (unsigned i = 0; i < gr_face_n_languages(f); ++i) tags.push_back(gr_face_lang_by_index(f, uint16_t(i)));
        for (unsigned i = 0; i < gr_face_n_fref(f); ++i) tags.push_back(gr_fref_id(gr_face_fref(f, uint16_t(i))));
        size_t nfont_tags = tags.size();
        static const char *scripts[] = {"latn", "arab", "mymr", "DFLT", "la", "x", "ab1"};
        for (const char *s : scripts) { uint32_t t = 0; for (size_t i = 0; i < 4; ++i) t = t << 8 | (i < strlen(s) ? uint8_t(s[i]) : 0); tags.push_back(t); }
        for (long k = 0; k < a.cases; ++k) {
            if (!a.runs(k)) continue;
            Rng r(a.case_seed(k));
            uint32_t base = size_t(k) < tags.size() ? tags[size_t(k)] : (r.chance(0.5) ? tags[r.below(uint32_t(tags.size()))] : uint32_t(r.next()));
            // content = leading bytes up to the last byte that is neither 0 nor space; pads = the rest (1..4 bytes)
            for (int pads = 1; pads <= 4; ++pads) {
                uint32_t keep = pads == 4 ? 0 : base & ~((1u << (8 * pads)) - 1);
                if (pads < 4) {
                    uint8_t lastc = uint8_t(keep >> (8 * pads));
                    if (lastc == 0 || lastc == 0x20) continue;      // content must not itself end in a pad character
                }
                uint32_t z = keep, s = keep;
                for (int i = 0; i < pads; ++i) s |= 0x20u << (8 * i);
                set_case(k, "pad font=%s zero=%08x space=%08x", fontpath.c_str(), z, s);
                st.add("pad_pairs");
                if (size_t(k) < nfont_tags && keep == base) st.add("pad_pairs_font_tags");
                // feature id
                if (gr_face_find_fref(f, z) != gr_face_find_fref(f, s)) V("pad:find_fref", "zero=%08x space=%08x select different features", z, s);
                if (gr_face_find_fref(f, z)) st.add("pad_feature_hits");
                // language
                gr_feature_val *fz = gr_face_featureval_for_lang(f, z), *fs = gr_face_featureval_for_lang(f, s);
                std::string dz = dump_fv(f, fz), ds = dump_fv(f, fs);
                if (dz != ds) V("pad:featureval_for_lang", "zero=%08x space=%08x give %s vs %s", z, s, dz.c_str(), ds.c_str());
                gr_feature_val *fd = gr_face_featureval_for_lang(f, 0);
                if (dz != dump_fv(f, fd)) st.add("pad_lang_hits");
                gr_featureval_destroy(fd);
                // script
                const gr_faceinfo *iz = gr_face_info(f, z), *is = gr_face_info(f, s);
                if ((iz == nullptr) != (is == nullptr) || (iz && memcmp(iz, is, sizeof *iz) != 0)) V("pad:face_info", "zero=%08x space=%08x", z, s);
                uint32_t cps[] = {0x41, 0x20, rep.empty() ? 0x61 : r.pick(rep), 0xE000, 0x10FFFF};
                for (uint32_t c : cps)
                    if (gr_face_is_char_supported(f, c, z) != gr_face_is_char_supported(f, c, s)) V("pad:is_char_supported", "zero=%08x space=%08x usv=%x", z, s, c);
                std::vector<uint32_t> txt = random_text(r, rep, 12, false);
                Text t;
                t.set(gr_utf32, txt);
                gr_segment *sz = gr_make_seg(nullptr, f, z, fz, gr_utf32, t.buf, t.nchars, 0);
                gr_segment *ss = gr_make_seg(nullptr, f, s, fs, gr_utf32, t.buf, t.nchars, 0);
                if (dump_seg(sz, f, nullptr) != dump_seg(ss, f, nullptr)) V("pad:make_seg", "zero=%08x space=%08x text=%s segments differ", z, s, cps_str(txt).c_str());
                if (sz) gr_seg_destroy(sz);
                if (ss) gr_seg_destroy(ss);
                gr_featureval_destroy(fz);
                gr_featureval_destroy(fs);
                if (k % 97 == 0 && pads == 2) printf("X {\"part\":\"pad\",\"font\":%s,\"zero\":\"%08x\",\"space\":\"%08x\"}\n", jstr(fontpath).c_str(), z, s);
            }
        }
        gr_face_destroy(f);
    } else internal_fail("unknown part");
    st.add("oracle_firings", double(g_viol));
    st.print();
    return 0;
}
