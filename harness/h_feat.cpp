// C18: feature values are an isolated, range-checked map with font defaults.
// Model = the font's own Feat / Sill / name tables parsed independently here (not FeatureMap.cpp / NameTable.cpp):
//   value map per gr_feature_val object; set succeeds iff v <= largest setting value (as uint16; any 16-bit value when the
//   feature defines no settings); defaults = first setting (0 without settings); per-language = defaults overridden by the
//   Sill entry (range-checked), feature id 1 carries the language tag when it can hold it; clones equal their source;
//   labels = name-table strings of the (3,1) records, identical in the three encodings and NUL-terminated.
// After EVERY operation every feature of the touched object is read back (interference check).
#include "common.hpp"
using namespace vf;
static Stats st;
static int g_err = -1;
extern "C" void gr_verif_load_error(int code) { g_err = code; }

struct MFeat { uint32_t id; std::vector<int16_t> vals; std::vector<uint16_t> labels; uint16_t nameid; uint16_t flags; uint32_t max; uint16_t def; };
struct MLang { uint32_t tag; std::vector<std::pair<uint32_t, uint16_t>> sets; };
struct NameRec { uint16_t lang, nameid; std::vector<uint16_t> units; };

static bool parse_feat(const uint8_t *p, size_t n, std::vector<MFeat> &out) {
    if (!p || n < 12) return n == 0 || !p;
    uint32_t ver = rd32(p);
    unsigned nf = rd16(p + 4);
    size_t rec = ver >= 0x20000 ? 16 : 12;
    if (12 + rec * nf > n) return false;
    for (unsigned i = 0; i < nf; ++i) {
        const uint8_t *r = p + 12 + rec * i;
        MFeat f;
        unsigned ns;
        uint32_t off;
        if (ver >= 0x20000) { f.id = rd32(r); ns = rd16(r + 4); off = rd32(r + 8); f.flags = rd16(r + 12); f.nameid = rd16(r + 14); }
        else { f.id = rd16(r); ns = rd16(r + 2); off = rd32(r + 4); f.flags = rd16(r + 8); f.nameid = rd16(r + 10); }
        if (size_t(off) + 4 * size_t(ns) > n) return false;
        f.max = ns ? 0 : 0xFFFFFFFFu;
        for (unsigned k = 0; k < ns; ++k) {
            int16_t v = int16_t(rd16(p + off + 4 * k));
            f.vals.push_back(v);
            f.labels.push_back(rd16(p + off + 4 * k + 2));
            if (uint16_t(v) > f.max) f.max = uint16_t(v);
        }
        f.def = ns ? uint16_t(f.vals[0]) : 0;
        out.push_back(f);
    }
    return true;
}
static void parse_sill(const uint8_t *p, size_t n, std::vector<MLang> &out) {
    if (!p || n < 12 || rd32(p) != 0x00010000) return;
    unsigned nl = rd16(p + 4);
    if (12 + 8 * size_t(nl) > n) return;
    for (unsigned i = 0; i < nl; ++i) {
        const uint8_t *e = p + 12 + 8 * i;
        MLang l;
        l.tag = rd32(e);
        unsigned ns = rd16(e + 4), off = rd16(e + 6);
        if (size_t(off) + 8 * size_t(ns) > n) return;
        for (unsigned k = 0; k < ns; ++k) l.sets.push_back({rd32(p + off + 8 * k), rd16(p + off + 8 * k + 4)});
        out.push_back(l);
    }
}
static void parse_name(const uint8_t *p, size_t n, std::vector<NameRec> &out) {
    if (!p || n < 6) return;
    unsigned cnt = rd16(p + 2), so = rd16(p + 4);
    for (unsigned i = 0; i < cnt && 6 + 12 * (i + 1) <= n; ++i) {
        const uint8_t *r = p + 6 + 12 * i;
        if (rd16(r) != 3 || rd16(r + 2) != 1) continue;
        NameRec nr;
        nr.lang = rd16(r + 4);
        nr.nameid = rd16(r + 6);
        unsigned len = rd16(r + 8), off = rd16(r + 10);
        if (size_t(so) + off + len > n) continue;
        for (unsigned k = 0; k + 1 < len + 1 && k + 2 <= len; k += 2) nr.units.push_back(rd16(p + so + off + k));
        out.push_back(nr);
    }
}
static std::vector<uint32_t> utf16_scalars(const std::vector<uint16_t> &u) {
    std::vector<uint32_t> o;
    for (size_t i = 0; i < u.size(); ++i) {
        uint32_t c = u[i];
        if (c >= 0xD800 && c <= 0xDBFF && i + 1 < u.size() && u[i + 1] >= 0xDC00 && u[i + 1] <= 0xDFFF) { c = 0x10000 + ((c - 0xD800) << 10) + (u[i + 1] - 0xDC00); ++i; }
        o.push_back(c);
    }
    return o;
}
// decode what the API returned (length code units + terminator) into scalars; returns false if not terminated
static bool decode_label(void *lab, gr_encform enc, uint32_t len, std::vector<uint32_t> &out) {
    if (enc == gr_utf8) {
        const uint8_t *b = static_cast<const uint8_t *>(lab);
        if (b[len] != 0) return false;
        for (uint32_t i = 0; i < len;) {
            uint32_t c = b[i];
            int n = c < 0x80 ? 1 : c < 0xE0 ? 2 : c < 0xF0 ? 3 : 4;
            if (n == 2) c = (c & 0x1F) << 6 | (b[i + 1] & 0x3F);
            else if (n == 3) c = (c & 0x0F) << 12 | (b[i + 1] & 0x3F) << 6 | (b[i + 2] & 0x3F);
            else if (n == 4) c = (c & 0x07) << 18 | (b[i + 1] & 0x3F) << 12 | (b[i + 2] & 0x3F) << 6 | (b[i + 3] & 0x3F);
            out.push_back(c);
            i += uint32_t(n);
        }
    } else if (enc == gr_utf16) {
        const uint16_t *b = static_cast<const uint16_t *>(lab);
        if (b[len] != 0) return false;
        out = utf16_scalars(std::vector<uint16_t>(b, b + len));
    } else {
        const uint32_t *b = static_cast<const uint32_t *>(lab);
        if (b[len] != 0) return false;
        out.assign(b, b + len);
    }
    return true;
}

struct Model {
    std::vector<MFeat> feats;
    std::vector<size_t> visible;            // indices of non-hidden features, in table order
    std::vector<MLang> langs;
    std::vector<NameRec> names;
    std::vector<uint16_t> defaults() const { std::vector<uint16_t> d; for (auto &f : feats) d.push_back(f.def); return d; }
    int find(uint32_t id) const { for (size_t i = 0; i < feats.size(); ++i) if (feats[i].id == id) return int(i); return -1; }
    std::vector<uint16_t> for_lang(uint32_t tag) const {
        std::vector<uint16_t> v = defaults();
        if (!tag) return v;
        for (auto &l : langs) if (l.tag == tag) {
            for (auto &s : l.sets) { int i = find(s.first); if (i >= 0 && s.second <= feats[size_t(i)].max) v[size_t(i)] = s.second; }
            int i1 = find(1);
            if (i1 >= 0 && tag <= feats[size_t(i1)].max) v[size_t(i1)] = uint16_t(tag);     // the language feature, read back through a 16-bit API
            return v;
        }
        return v;
    }
};

static void check_label(const Model &m, const gr_feature_ref *fr, int setting, uint16_t nameid, const char *what, uint32_t fid) {
    static const gr_encform encs[3] = {gr_utf8, gr_utf16, gr_utf32};
    static const uint16_t asks[] = {0x0409, 0x040C, 0x0809, 0x0407, 0x0411, 0x1409, 0x0000, 0x7777};
    std::vector<const NameRec *> cands;
    for (auto &r : m.names) if (r.nameid == nameid) cands.push_back(&r);
    for (uint16_t ask : asks) {
        std::vector<uint32_t> got[3];
        uint16_t glang[3];
        bool have[3];
        for (int e = 0; e < 3; ++e) {
            uint16_t lang = ask;
            uint32_t len = 0xDEADBEEF;
            void *lab = setting < 0 ? LIB(gr_fref_label(fr, &lang, encs[e], &len)) : LIB(gr_fref_value_label(fr, uint16_t(setting), &lang, encs[e], &len));
            st.add("label_queries");
            have[e] = lab != nullptr;
            glang[e] = lang;
            if (lab) {
                if (!decode_label(lab, encs[e], len, got[e])) V("label:terminator", "%s of feature %08x (name %u, lang %x, enc %d): no NUL at index length=%u", what, fid, nameid, ask, 1 << e, len);
                LIBV(gr_label_destroy(lab));
            }
        }
        if (cands.empty()) { if (have[0] || have[1] || have[2]) V("label:phantom", "%s of feature %08x: name id %u has no (3,1) record but a label came back", what, fid, nameid); continue; }
        if (!have[0] || !have[1] || !have[2]) { V("label:missing", "%s of feature %08x: name id %u has %zu (3,1) record(s) but the label is NULL (asked lang %x)", what, fid, nameid, cands.size(), ask); continue; }
        if (got[0] != got[1] || got[0] != got[2] || glang[0] != glang[1] || glang[0] != glang[2]) { V("label:encodings-differ", "%s of feature %08x name %u lang %x: utf8/16/32 answers differ", what, fid, nameid, ask); continue; }
        // the answer is the string of the record for the language reported back; an exact (name, language) record must win
        const NameRec *exact = nullptr, *reported = nullptr;
        for (auto c : cands) { if (c->lang == ask && !exact) exact = c; if (c->lang == glang[0] && !reported) reported = c; }
        if (exact && glang[0] != ask) V("label:exact-language-ignored", "%s of feature %08x name %u: a record for language %x exists but %x was used", what, fid, nameid, ask, glang[0]);
        if (!reported) V("label:language-out", "%s of feature %08x name %u: reported language %x has no record", what, fid, nameid, glang[0]);
        else if (utf16_scalars(reported->units) != got[0]) V("label:text", "%s of feature %08x name %u lang %x: text differs from the name-table string", what, fid, nameid, glang[0]);
        else st.add("labels_matched");
    }
}

int main(int argc, char **argv) {
    Args a;
    a.parse(argc, argv);
    install_handlers();
    AllocMon::install();
    std::string fontpath = a.get("font");
    std::vector<uint8_t> data;
    if (!read_file(fontpath, data)) internal_fail("cannot read font");
    Model m;
    {
        const uint8_t *pf = nullptr, *ps = nullptr, *pn = nullptr;
        size_t nf = 0, ns = 0, nn = 0;
        for (auto &e : sfnt_dir(data)) {
            if (e.tag == 0x46656174) { pf = data.data() + e.off; nf = e.len; }
            if (e.tag == 0x53696C6C) { ps = data.data() + e.off; ns = e.len; }
            if (e.tag == 0x6E616D65) { pn = data.data() + e.off; nn = e.len; }
        }
        if (!parse_feat(pf, nf, m.feats)) { st.add("fonts_with_unparsable_feat"); st.print(); return 0; }
        parse_sill(ps, ns, m.langs);
        parse_name(pn, nn, m.names);
        for (size_t i = 0; i < m.feats.size(); ++i) if (!(m.feats[i].flags & 0x0800)) m.visible.push_back(i);
        std::set<uint32_t> ids;
        for (auto &f : m.feats) if (!ids.insert(f.id).second) { st.add("fonts_with_duplicate_feature_ids_skipped"); st.print(); return 0; }
    }
    unsigned opt = unsigned(a.geti("opt", 0));
    gr_face *f = LIB(gr_make_file_face(fontpath.c_str(), opt));
    if (!f) { st.add("fonts_not_loaded"); st.count("load_error", std::to_string(g_err)); st.print(); return 0; }
    st.add("fonts");
    st.mx("max_features", double(m.feats.size()));
    set_case(-1, "structure font=%s", fontpath.c_str());
    // ---- structure: counts, ids, settings, find
    if (gr_face_n_fref(f) != m.visible.size()) V("structure:n-fref", "gr_face_n_fref=%u, Feat table has %zu visible of %zu features", gr_face_n_fref(f), m.visible.size(), m.feats.size());
    if (gr_face_n_languages(f) != (m.feats.empty() ? 0 : m.langs.size())) V("structure:n-languages", "gr_face_n_languages=%u, Sill has %zu", gr_face_n_languages(f), m.langs.size());
    std::vector<const gr_feature_ref *> refs(m.feats.size(), nullptr);
    // visible features are taken by index; hidden ones can only be reached by id.  (An id whose low byte(s) are 0x20 is
    // indistinguishable from a space-padded tag at gr_face_find_fref - charis_r_gr.ttf has feature 0x420 - so lookups by
    // id are judged only for ids that do not end in a pad byte.)
    for (size_t vi = 0; vi < m.visible.size() && vi < gr_face_n_fref(f); ++vi) refs[m.visible[vi]] = gr_face_fref(f, uint16_t(vi));
    for (size_t i = 0; i < m.feats.size(); ++i) {
        bool padlike = (m.feats[i].id & 0xFF) == 0x20 || (m.feats[i].id & 0xFF) == 0;
        const gr_feature_ref *byid = gr_face_find_fref(f, m.feats[i].id);
        if (!refs[i]) refs[i] = byid;
        if (!padlike && byid != refs[i]) V("structure:find-fref", "gr_face_find_fref(%08x) does not return the feature with that id", m.feats[i].id);
        if (!refs[i] || gr_fref_id(refs[i]) != m.feats[i].id) { V("structure:fref-id", "feature %zu: gr_fref_id is not %08x", i, m.feats[i].id); refs[i] = nullptr; continue; }
        if (gr_fref_n_values(refs[i]) != m.feats[i].vals.size()) V("structure:n-values", "feature %08x: %u settings, table has %zu", m.feats[i].id, gr_fref_n_values(refs[i]), m.feats[i].vals.size());
        else for (size_t k = 0; k < m.feats[i].vals.size(); ++k) if (gr_fref_value(refs[i], uint16_t(k)) != m.feats[i].vals[k]) { V("structure:setting-value", "feature %08x setting %zu", m.feats[i].id, k); break; }
    }
    for (auto &r : refs) if (!r) { st.print(); LIBV(gr_face_destroy(f)); return 0; }
    // ---- labels
    if (a.shard == 0 && a.only < 0) {
        for (size_t i = 0; i < m.feats.size() && i < 24; ++i) {
            set_case(-1, "labels font=%s feature=%08x", fontpath.c_str(), m.feats[i].id);
            check_label(m, refs[i], -1, m.feats[i].nameid, "feature label", m.feats[i].id);
            for (size_t k = 0; k < m.feats[i].labels.size() && k < 3; ++k) check_label(m, refs[i], int(k), m.feats[i].labels[k], "setting label", m.feats[i].id);
        }
    }
    // ---- histories
    static const uint16_t bnd[] = {0, 1, 2, 0x7FFF, 0x8000, 0xFFFF};
    for (long k = 0; k < a.cases; ++k) {
        if (!a.runs(k)) continue;
        Rng r(a.case_seed(k));
        set_case(k, "history font=%s", fontpath.c_str());
        struct Obj { gr_feature_val *fv; std::vector<uint16_t> model; };
        std::vector<Obj> pool;
        int nops = int(a.geti("ops", 200));
        std::string hist;
        auto readback = [&](const Obj &o, const char *after) -> bool {
            for (size_t i = 0; i < m.feats.size(); ++i) {
                uint16_t got = gr_fref_feature_value(refs[i], o.fv);
                if (got != o.model[i]) { V("value", "after %s (history %s): feature %zu (id %08x, max %u) reads %u, model says %u", after, hist.c_str(), i, m.feats[i].id, m.feats[i].max, got, o.model[i]); return false; }
            }
            st.add("readbacks");
            return true;
        };
        bool ok = true;
        for (int op = 0; op < nops && ok; ++op) {
            int kind = pool.empty() ? 0 : int(r.below(10));
            if (kind == 0 || (kind == 1 && pool.size() < 6)) {
                // new object: defaults or per-language, zero- or space-padded tag, known or unknown
                uint32_t tag = 0;
                int tk = int(r.below(4));
                if (tk == 1 && !m.langs.empty()) tag = m.langs[r.below(uint32_t(m.langs.size()))].tag;
                else if (tk == 2) tag = 0x7A7A0000u | (r.below(26) + 'a') << 8;           // most likely unknown
                uint32_t ask = tag;
                if (tag && r.chance(0.5)) for (int b = 0; b < 4 && !(ask >> (8 * b) & 0xFF); ++b) ask |= 0x20u << (8 * b);   // space padded
                Obj o;
                o.fv = LIB(gr_face_featureval_for_lang(f, ask));
                o.model = m.for_lang(tag);
                hist += 'L';
                st.add("op_for_lang");
                if (tag && ask != tag) st.add("op_for_lang_space_padded");
                set_case(k, "history font=%s ops=%s (for_lang %08x)", fontpath.c_str(), hist.c_str(), ask);
                ok = readback(o, fmt("featureval_for_lang(%08x)", ask).c_str());
                pool.push_back(o);
            } else if (kind == 2 && pool.size() < 8) {
                Obj &src = pool[r.below(uint32_t(pool.size()))];
                Obj o;
                o.fv = LIB(gr_featureval_clone(src.fv));
                o.model = src.model;
                hist += 'C';
                st.add("op_clone");
                ok = readback(o, "clone") && readback(src, "clone (source)");
                pool.push_back(o);
            } else if (kind == 3 && pool.size() > 1) {
                size_t i = r.below(uint32_t(pool.size()));
                LIBV(gr_featureval_destroy(pool[i].fv));
                pool.erase(pool.begin() + long(i));
                hist += 'D';
                st.add("op_destroy");
            } else {
                Obj &o = pool[r.below(uint32_t(pool.size()))];
                size_t fi = r.below(uint32_t(m.feats.size()));
                const MFeat &mf = m.feats[fi];
                uint16_t v;
                switch (r.below(6)) {
                case 0: v = bnd[r.below(6)]; break;
                case 1: v = uint16_t(mf.max == 0xFFFFFFFFu ? 0xFFFF : mf.max); break;
                case 2: v = uint16_t(mf.max == 0xFFFFFFFFu ? 0xFFFE : mf.max + 1); break;
                case 3: v = uint16_t(mf.max == 0xFFFFFFFFu || mf.max == 0 ? 0 : mf.max - 1); break;
                case 4: v = mf.vals.empty() ? uint16_t(r.below(65536)) : uint16_t(mf.vals[r.below(uint32_t(mf.vals.size()))]); break;
                default: v = uint16_t(r.below(65536)); break;
                }
                bool expect = uint32_t(v) <= mf.max;
                int got = gr_fref_set_feature_value(refs[fi], v, o.fv);
                hist += expect ? 'S' : 's';
                st.add(expect ? "op_set_accepted" : "op_set_rejected");
                set_case(k, "history font=%s ops=%s (set feature %zu id %08x max %u to %u)", fontpath.c_str(), hist.c_str(), fi, mf.id, mf.max, v);
                if ((got != 0) != expect) { V("set:result", "set_feature_value(feature id %08x, max %u, value %u) returned %d", mf.id, mf.max, v, got); ok = false; }
                if (got) o.model[fi] = v;
                ok = ok && readback(o, fmt("set(%08x,%u)=%d", mf.id, v, got).c_str());
                // the other objects are untouched
                if (ok && pool.size() > 1 && r.chance(0.3)) { Obj &other = pool[r.below(uint32_t(pool.size()))]; ok = readback(other, "a set on another object"); }
            }
        }
        for (auto &o : pool) LIBV(gr_featureval_destroy(o.fv));
        st.add("histories");
        st.add("ops", double(hist.size()));
        if (ok && m.feats.size() >= 2) st.add("nontrivial");
        if (k % 199 == 0) printf("X {\"font\":%s,\"features\":%zu,\"languages\":%zu,\"history\":\"%s\"}\n", jstr(fontpath.substr(fontpath.rfind('/') + 1)).c_str(), m.feats.size(), m.langs.size(), hist.substr(0, 60).c_str());
    }
    LIBV(gr_face_destroy(f));
    if (AllocMon::live != 0) V("leak", "%ld library allocations live after the face was destroyed", AllocMon::live);
    st.add("oracle_firings", double(g_viol));
    st.print();
    return 0;
}
