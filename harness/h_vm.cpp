// C07(a): the stack machine follows the opcode specification.
// Generated straight-line programs over the push / arithmetic / comparison / logical / conditional / truncation / bit
// opcodes (0x00-0x18, 0x30-0x32, 0x3E-0x41), type-correct by construction so that the loader's stack analysis accepts
// them, are loaded with Machine::Code and run on a real one-slot segment; (status class, value) is compared with a
// reference evaluator over 32-bit two's-complement integers written from doc/OpCodes.adoc (not from inc/opcodes.h).
// The same binary is built against the direct-threaded and the call-threaded interpreter (flavours asan / asan-call).
#include "common.hpp"
#include "inc/Main.h"
#include "inc/Code.h"
#include "inc/Rule.h"
#include "inc/Silf.h"
#include "inc/Face.h"
#include "inc/Segment.h"
using namespace vf;
using namespace graphite2;
using namespace graphite2::vm;
static Stats st;

enum { oNOP = 0, oPUSH_BYTE, oPUSH_BYTEU, oPUSH_SHORT, oPUSH_SHORTU, oPUSH_LONG, oADD, oSUB, oMUL, oDIV, oMIN, oMAX, oNEG, oTRUNC8, oTRUNC16, oCOND, oAND, oOR, oNOT,
       oEQUAL, oNOT_EQ, oLESS, oGTR, oLESS_EQ, oGTR_EQ, oPOP_RET = 0x30, oRET_ZERO = 0x31, oRET_TRUE = 0x32, oBITOR = 0x3E, oBITAND = 0x3F, oBITNOT = 0x40, oBITSET = 0x41 };
static const char *opname(int o) {
    static const char *n[] = {"nop", "push_byte", "push_byte_u", "push_short", "push_short_u", "push_long", "add", "sub", "mul", "div", "min", "max", "neg", "trunc8", "trunc16", "cond", "and", "or", "not",
                              "equal", "not_eq", "less", "gtr", "less_eq", "gtr_eq"};
    if (o <= 0x18) return n[o];
    switch (o) { case 0x30: return "pop_ret"; case 0x31: return "ret_zero"; case 0x32: return "ret_true"; case 0x3E: return "bitor"; case 0x3F: return "bitand"; case 0x40: return "bitnot"; case 0x41: return "bitset"; }
    return "?";
}
static const int64_t kBound[] = {0, 1, -1, 2, 0x7F, 0x80, 0xFF, 0x100, 0x7FFF, 0x8000, 0xFFFF, 0x10000, 0x7FFFFFFF, -0x80000000LL, -0x7FFFFFFFLL, -0x80, -0x8000, 0x7FFFFFFE};
static inline int32_t wrap(int64_t v) { return int32_t(uint32_t(uint64_t(v))); }

enum Outcome { FIN, NOTEMPTY, DIED, OTHER };
struct Expect { Outcome o; int32_t v; };

struct Gen {
    std::vector<uint8_t> code;
    std::vector<int32_t> stk;          // reference stack
    bool died = false;
    void push_const(Rng &r, int64_t want, bool free_form) {
        // choose an encoding; when free_form the value is whatever the random encoding yields
        int k = free_form ? int(r.below(5)) : 4;
        if (k == 0) { uint8_t b = uint8_t(r.next()); code.push_back(oPUSH_BYTE); code.push_back(b); stk.push_back(int8_t(b)); }
        else if (k == 1) { uint8_t b = uint8_t(r.next()); code.push_back(oPUSH_BYTEU); code.push_back(b); stk.push_back(b); }
        else if (k == 2) { uint16_t w = r.chance(0.5) ? uint16_t(r.next()) : uint16_t(kBound[r.below(12)]); code.push_back(oPUSH_SHORT); code.push_back(uint8_t(w >> 8)); code.push_back(uint8_t(w)); stk.push_back(int16_t(w)); }
        else if (k == 3) { uint16_t w = r.chance(0.5) ? uint16_t(r.next()) : uint16_t(kBound[r.below(12)]); code.push_back(oPUSH_SHORTU); code.push_back(uint8_t(w >> 8)); code.push_back(uint8_t(w)); stk.push_back(w); }
        else {
            uint32_t u = uint32_t(free_form ? (r.chance(0.6) ? kBound[r.below(sizeof kBound / sizeof kBound[0])] : int64_t(int32_t(r.next()))) : want);
            code.push_back(oPUSH_LONG); code.push_back(uint8_t(u >> 24)); code.push_back(uint8_t(u >> 16)); code.push_back(uint8_t(u >> 8)); code.push_back(uint8_t(u));
            stk.push_back(int32_t(u));
        }
    }
    // apply an operator to the reference stack (the specification, evaluated on 32-bit two's-complement integers)
    void apply(Rng &r, int op) {
        code.push_back(uint8_t(op));
        st.count("opcodes_executed", opname(op));
        if (op == oNOP) return;
        if (op == oNEG || op == oTRUNC8 || op == oTRUNC16 || op == oNOT || op == oBITNOT || op == oBITSET) {
            int32_t a = stk.back(), res;
            stk.pop_back();
            if (op == oNEG) res = wrap(-int64_t(a));
            else if (op == oTRUNC8) res = int32_t(uint32_t(a) & 0xFF);
            else if (op == oTRUNC16) res = int32_t(uint32_t(a) & 0xFFFF);
            else if (op == oNOT) res = a == 0;
            else if (op == oBITNOT) res = ~a;
            else {
                uint16_t m = r.chance(0.5) ? uint16_t(r.next()) : uint16_t(kBound[r.below(12)]), v = r.chance(0.5) ? uint16_t(r.next()) : uint16_t(kBound[r.below(12)]);
                code.push_back(uint8_t(m >> 8)); code.push_back(uint8_t(m)); code.push_back(uint8_t(v >> 8)); code.push_back(uint8_t(v));
                res = int32_t((uint32_t(a) & ~uint32_t(m)) | v);
            }
            stk.push_back(res);
            return;
        }
        if (op == oCOND) {
            int32_t f = stk.back(); stk.pop_back();
            int32_t t = stk.back(); stk.pop_back();
            int32_t c = stk.back(); stk.pop_back();
            stk.push_back(c != 0 ? t : f);
            return;
        }
        int32_t b = stk.back(); stk.pop_back();       // top-most
        int32_t a = stk.back(); stk.pop_back();       // next
        int64_t A = a, B = b;
        int32_t res = 0;
        switch (op) {
        case oADD: res = wrap(A + B); break;
        case oSUB: res = wrap(A - B); break;
        case oMUL: res = wrap(int64_t(uint64_t(A) * uint64_t(B))); break;
        case oDIV:
            if (b == 0 || (a == INT32_MIN && b == -1)) { died = true; res = 0; }
            else { int64_t q = (A < 0 ? -A : A) / (B < 0 ? -B : B); res = wrap(((A < 0) == (B < 0)) ? q : -q); }      // truncating
            break;
        case oMIN: res = a < b ? a : b; break;
        case oMAX: res = a > b ? a : b; break;
        case oAND: res = (a != 0) && (b != 0); break;
        case oOR: res = (a != 0) || (b != 0); break;
        case oEQUAL: res = a == b; break;
        case oNOT_EQ: res = a != b; break;
        case oLESS: res = a < b; break;
        case oGTR: res = a > b; break;
        case oLESS_EQ: res = a <= b; break;
        case oGTR_EQ: res = a >= b; break;
        case oBITOR: res = a | b; break;
        case oBITAND: res = a & b; break;
        }
        stk.push_back(res);
    }
    Expect finish(Rng &r) {
        if (died) { code.push_back(stk.empty() ? oRET_ZERO : oPOP_RET); return {DIED, 0}; }
        int e = int(r.below(10));
        if (e == 0) { code.push_back(oRET_ZERO); return stk.empty() ? Expect{FIN, 0} : Expect{NOTEMPTY, 0}; }
        if (e == 1) { code.push_back(oRET_TRUE); return stk.empty() ? Expect{FIN, 1} : Expect{NOTEMPTY, 0}; }
        if (stk.empty()) push_const(r, 7, false);
        code.push_back(oPOP_RET);
        return stk.size() == 1 ? Expect{FIN, stk.back()} : Expect{NOTEMPTY, 0};
    }
};
static const int kUnary[] = {oNEG, oTRUNC8, oTRUNC16, oNOT, oBITNOT, oBITSET, oNOP};
static const int kBinary[] = {oADD, oSUB, oMUL, oDIV, oMIN, oMAX, oAND, oOR, oEQUAL, oNOT_EQ, oLESS, oGTR, oLESS_EQ, oGTR_EQ, oBITOR, oBITAND};

int main(int argc, char **argv) {
    Args a;
    a.parse(argc, argv);
    install_handlers();
    std::string fontpath = a.get("font");
    gr_face *face = gr_make_file_face(fontpath.c_str(), 0);
    if (!face) internal_fail("cannot load %s", fontpath.c_str());
    gr_segment *gseg = gr_make_seg(nullptr, face, 0, nullptr, gr_utf8, "a", 1, 0);
    if (!gseg) internal_fail("no segment");
    Segment &seg = *gseg;
    Silf silf;
    const long NB = long(sizeof kBound / sizeof kBound[0]), matrix = long(sizeof kBinary / sizeof kBinary[0]) * NB * NB;
    for (long k = 0; k < a.cases; ++k) {
        if (!a.runs(k)) continue;
        long g = k * a.nshards + a.shard;
        Rng r(a.case_seed(k));
        Gen gen;
        if (g < matrix) {
            // full boundary operand matrix for every binary operator
            int op = kBinary[g / (NB * NB)];
            gen.push_const(r, kBound[(g / NB) % NB], false);
            gen.push_const(r, kBound[g % NB], false);
            gen.apply(r, op);
            st.add("matrix_programs");
        } else {
            int n = r.chance(0.05) ? r.range(100, 200) : r.range(1, 60);
            bool deep = r.chance(0.02);
            if (deep) for (int i = r.range(500, 1000); i > 0; --i) gen.push_const(r, 0, true);      // stack depth up to 1000 (limit 1024)
            for (int i = 0; i < n && !gen.died; ++i) {
                size_t d = gen.stk.size();
                int pick = int(r.below(10));
                if (d >= 3 && pick == 0) gen.apply(r, oCOND);
                else if (d >= 2 && pick < 6) gen.apply(r, kBinary[r.below(16)]);
                else if (d >= 1 && pick < 8) gen.apply(r, kUnary[r.below(7)]);
                else if (d < 1000) gen.push_const(r, 0, true);
                else gen.apply(r, kBinary[r.below(16)]);
            }
            // long programs tend to leave several values: fold them so that more programs finish with exactly one
            if (!gen.died && r.chance(0.7)) while (gen.stk.size() > 1 && !gen.died) gen.apply(r, kBinary[r.below(16)]);
        }
        Expect ex = gen.finish(r);
        set_case(k, "vm program %s", hexs(gen.code.data(), gen.code.size() < 120 ? gen.code.size() : 120).c_str());
        Machine::Code code(true, gen.code.data(), gen.code.data() + gen.code.size(), 0, 1, silf, *face, PASS_TYPE_UNKNOWN);
        st.add("programs");
        if (!code) { V("load-refused", "the loader refuses a well-formed straight-line program (status %d)", int(code.status())); continue; }
        SlotMap smap(seg, 0, 0);
        Machine m(smap);
        smap.reset(*seg.first(), 0);
        smap.pushSlot(seg.first());
        slotref *map = smap.begin();
        int32_t ret = code.run(m, map);
        Outcome got = m.status() == Machine::finished ? FIN : m.status() == Machine::stack_not_empty ? NOTEMPTY : m.status() == Machine::died_early ? DIED : OTHER;
        static const char *on[] = {"finished", "stack_not_empty", "died_early", "other"};
        st.count("outcomes", on[ex.o]);
        if (got != ex.o) V("status", "%s: specification says %s, machine status %d", VERIF_FLAVOUR, on[ex.o], int(m.status()));
        else if (got == FIN && ret != ex.v) V("value", "%s: specification value %d (0x%x), machine returned %d (0x%x)", VERIF_FLAVOUR, ex.v, unsigned(ex.v), ret, unsigned(ret));
        else st.add("agree");
        if (k % 9973 == 0) printf("X {\"program\":\"%s\",\"expect\":\"%s\",\"value\":%d}\n", hexs(gen.code.data(), gen.code.size() < 48 ? gen.code.size() : 48).c_str(), on[ex.o], ex.v);
    }
    gr_seg_destroy(gseg);
    gr_face_destroy(face);
    st.add("oracle_firings", double(g_viol));
    st.print();
    return 0;
}
