// C08: shaping is a pure function of its arguments (history-independent).
// One long-lived face per option set (lazy gr_face_default and gr_face_preloadAll) lives through a seeded history of
// API calls; after every few operations a probe call is replayed on it and compared textually (MON-DUMP) with the
// reference computed on a brand-new face; the face self-report is compared before/after the history as well.
// A case = one history (fresh long-lived faces at its start).
#include "common.hpp"
using namespace vf;
static Stats st;
static long g_rules_fired = 0;
extern "C" void gr_verif_rule_fired(const void *, unsigned int, const void *, const void *, unsigned int, unsigned int) { ++g_rules_fired; }

struct Probe {
    std::vector<uint32_t> text;
    int enc, dir, fmode;
    uint32_t lang;
    std::vector<std::pair<unsigned, uint16_t>> sets;
    float ppm;
    std::string ref[2];
};
static const gr_encform kEnc[3] = {gr_utf8, gr_utf16, gr_utf32};
// single label queries: the reference is the same query as the FIRST label query of a brand-new face (a face-level name-table
// cursor or cache that an earlier query moved would show as a difference)
struct LabelProbe { unsigned feat; int setting; uint16_t lang; int enc; std::string ref[2]; };
static std::string run_label(const gr_face *f, const LabelProbe &p) {
    const gr_feature_ref *fr = gr_face_fref(f, uint16_t(p.feat));
    if (!fr) return "no-fref";
    uint16_t lang = p.lang;
    uint32_t len = 0;
    void *lab = p.setting < 0 ? LIB(gr_fref_label(fr, &lang, kEnc[p.enc], &len)) : LIB(gr_fref_value_label(fr, uint16_t(p.setting), &lang, kEnc[p.enc], &len));
    std::string s = fmt("lang=%x len=%u %s", lang, len, label_str(lab, kEnc[p.enc], len).c_str());
    if (lab) LIBV(gr_label_destroy(lab));
    return s;
}
static LabelProbe draw_label(Rng &r, const gr_face *f) {
    LabelProbe p;
    unsigned nf = gr_face_n_fref(f);
    p.feat = nf ? r.below(nf) : 0;
    const gr_feature_ref *fr = nf ? gr_face_fref(f, uint16_t(p.feat)) : nullptr;
    unsigned nv = fr ? gr_fref_n_values(fr) : 0;
    p.setting = (nv && r.chance(0.5)) ? int(r.below(nv)) : -1;
    static const uint16_t langs[] = {0x409, 0x40C, 0x809, 0x407, 0x411, 0x80C, 0, 0xFFFF};
    p.lang = langs[r.below(8)];
    p.enc = int(r.below(3));
    return p;
}

static gr_feature_val *mkfeat(const gr_face *f, const Probe &p) {
    if (p.fmode == 0) return nullptr;
    gr_feature_val *fv = LIB(gr_face_featureval_for_lang(f, p.lang));
    for (auto &s : p.sets) gr_fref_set_feature_value(gr_face_fref(f, uint16_t(s.first)), s.second, fv);
    return fv;
}
static std::string run_probe(const gr_face *f, const Probe &p) {
    gr_font *font = p.ppm > 0 ? LIB(gr_make_font(p.ppm, f)) : nullptr;
    Text tx;
    tx.set(kEnc[p.enc], p.text, false);
    gr_feature_val *fv = mkfeat(f, p);
    gr_segment *s = LIB(gr_make_seg(font, f, 0, fv, kEnc[p.enc], tx.buf, p.text.size(), p.dir));
    std::string d = dump_seg(s, f, font);
    if (s) LIBV(gr_seg_destroy(s));
    if (fv) LIBV(gr_featureval_destroy(fv));
    if (font) LIBV(gr_font_destroy(font));
    return d;
}
// Font-level state (C08 "on the same face and font"): the history's long-lived font is, for every other case, a hinted font whose
// advance callback is a pure function of the glyph id, so the engine's per-font advance cache must be invisible (S91).
static int g_hint_handle = 17;
static float hint_adv(const void *, gr_uint16 gid) { return float((unsigned(gid) * 37u) % 29u) + 3.25f; }
static gr_font *mk_lfont(const gr_face *f, bool hinted) {
    return hinted ? LIB(gr_make_font_with_advance_fn(17, &g_hint_handle, hint_adv, f)) : LIB(gr_make_font(17, f));
}
static std::string run_probe_font(const gr_face *f, const Probe &p, const gr_font *font) {
    Text tx;
    tx.set(kEnc[p.enc], p.text, false);
    gr_feature_val *fv = mkfeat(f, p);
    gr_segment *s = LIB(gr_make_seg(font, f, 0, fv, kEnc[p.enc], tx.buf, p.text.size(), p.dir));
    std::string d = dump_seg(s, f, font);
    if (s) LIBV(gr_seg_destroy(s));
    if (fv) LIBV(gr_featureval_destroy(fv));
    return d;
}
static Probe draw_probe(Rng &r, const gr_face *f, const std::vector<uint32_t> &rep, const std::vector<std::vector<uint32_t>> &lines) {
    Probe p;
    p.text = (!lines.empty() && r.chance(0.5)) ? r.pick(lines) : random_text(r, rep, 24, r.chance(0.2));
    if (p.text.size() > 48) p.text.resize(48);
    for (auto &c : p.text) if (c == 0 || !is_scalar(c)) c = 0xFFFD;
    p.enc = int(r.below(3));
    p.dir = int(r.below(8));
    p.fmode = int(r.below(3));
    unsigned nf = gr_face_n_fref(f), nl = gr_face_n_languages(f);
    p.lang = (p.fmode == 1 && nl) ? gr_face_lang_by_index(f, uint16_t(r.below(nl))) : 0;
    if (p.fmode == 2 && nf) for (int i = r.range(1, 3); i > 0; --i) {
        unsigned fi = r.below(nf);
        const gr_feature_ref *fr = gr_face_fref(f, uint16_t(fi));
        unsigned nv = gr_fref_n_values(fr);
        p.sets.push_back({fi, uint16_t(nv ? gr_fref_value(fr, uint16_t(r.below(nv))) : r.below(3))});
    }
    static const float ppms[] = {0.0f, 0.0f, 12.0f, 17.0f, 96.5f};
    p.ppm = ppms[r.below(5)];
    return p;
}

int main(int argc, char **argv) {
    Args a;
    a.parse(argc, argv);
    install_handlers();
    AllocMon::install();
    std::string fontpath = a.get("font");
    int nops = int(a.geti("ops", 40)), nprobes = int(a.geti("probes", 10)), every = int(a.geti("every", 5));
    std::vector<std::vector<uint32_t>> lines;
    if (!a.get("texts").empty()) lines = text_lines(a.get("texts"), 3000);
    static const unsigned opts[2] = {gr_face_default, gr_face_preloadAll};
    gr_face *f0 = LIB(gr_make_file_face(fontpath.c_str(), 0));
    if (!f0) { st.add("fonts_not_loaded"); st.print(); return 0; }
    std::vector<uint32_t> rep = repertoire(f0, 0x20000);
    // fixed probe set; reference = each probe on its own brand-new face
    Rng pr(mix(a.seed, 77, uint64_t(a.shard)));
    std::vector<Probe> probes;
    for (int i = 0; i < nprobes; ++i) probes.push_back(draw_probe(pr, f0, rep, lines));
    std::vector<LabelProbe> lprobes;
    int nlprobes = gr_face_n_fref(f0) ? int(a.geti("lprobes", 6)) : 0;
    for (int i = 0; i < nlprobes; ++i) lprobes.push_back(draw_label(pr, f0));
    LIBV(gr_face_destroy(f0));
    set_case(-1, "computing reference probes on fresh faces of %s", fontpath.c_str());
    std::string ref_report[2];
    for (int o = 0; o < 2; ++o) {
        for (auto &p : probes) {
            gr_face *fr = LIB(gr_make_file_face(fontpath.c_str(), opts[o]));
            p.ref[o] = run_probe(fr, p);
            LIBV(gr_face_destroy(fr));
        }
        for (auto &p : lprobes) {
            gr_face *fr = LIB(gr_make_file_face(fontpath.c_str(), opts[o]));
            p.ref[o] = run_label(fr, p);
            LIBV(gr_face_destroy(fr));
        }
        gr_face *fr = LIB(gr_make_file_face(fontpath.c_str(), opts[o]));
        ref_report[o] = face_report(fr);
        LIBV(gr_face_destroy(fr));
    }
    if (a.get("part") == "swap") {
        // Order-swap monitor: two calls that differ in ONE argument (a feature value, the language, the direction, the size, the text)
        // are made in both orders, each order on its own brand-new face; what a call returns must not depend on whether the other call
        // came first.  The variations are enumerated (every feature x every setting value, every language, ...), not sampled, so state
        // that the first call on a face freezes (or that the previous call leaves behind) is met whatever argument it is keyed on.
        gr_face *fq = LIB(gr_make_file_face(fontpath.c_str(), 0));
        struct Var { int kind; unsigned feat; uint16_t val; uint32_t lang; };
        std::vector<Var> vars;
        unsigned nf = gr_face_n_fref(fq), nl = gr_face_n_languages(fq);
        for (unsigned i = 0; i < nf; ++i) {
            const gr_feature_ref *fr = gr_face_fref(fq, uint16_t(i));
            unsigned nv = gr_fref_n_values(fr);
            for (unsigned j = 0; j < nv; ++j) vars.push_back({0, i, uint16_t(gr_fref_value(fr, uint16_t(j))), 0});
            if (!nv) { vars.push_back({0, i, 1, 0}); vars.push_back({0, i, 0, 0}); }
        }
        for (unsigned i = 0; i < nl; ++i) vars.push_back({1, 0, 0, gr_face_lang_by_index(fq, uint16_t(i))});
        for (int d = 1; d < 8; ++d) vars.push_back({2, 0, uint16_t(d), 0});
        vars.push_back({3, 0, 0, 0});
        vars.push_back({4, 0, 0, 0});
        LIBV(gr_face_destroy(fq));
        long total = std::min<long>(a.cases, (long(vars.size()) - a.shard + a.nshards - 1) / a.nshards);
        for (long k = 0; k < total; ++k) {
            if (!a.runs(k)) continue;
            Rng r(a.case_seed(k));
            // rotate the enumeration by the seed so that different seeds start at different variations when the budget is short
            const Var &v = vars[size_t((k * a.nshards + a.shard + long(a.seed % 9973) * 7) % long(vars.size()))];
            int o = int(r.below(2));
            Probe base = probes[r.below(uint32_t(probes.size()))];
            if (base.text.size() < 2 && !lines.empty()) base.text = r.pick(lines);
            if (base.text.size() > 48) base.text.resize(48);
            base.fmode = 0; base.sets.clear(); base.lang = 0;
            Probe var = base;
            std::string what;
            switch (v.kind) {
            case 0: var.fmode = 2; var.sets.push_back({v.feat, v.val}); what = fmt("feature #%u = %u", v.feat, v.val); break;
            case 1: var.fmode = 1; var.lang = v.lang; what = fmt("language %08x", v.lang); break;
            case 2: var.dir = base.dir ^ int(v.val); what = fmt("dir %d vs %d", var.dir, base.dir); break;
            case 3: var.ppm = base.ppm > 0 ? 0.0f : 31.0f; what = "size"; break;
            default: var.text = random_text(r, rep, 24, false); for (auto &c : var.text) if (c == 0 || !is_scalar(c)) c = 0x41; what = "another text"; break;
            }
            set_case(k, "swap font=%s options=%u variation=%s text=%s dir=%d ppm=%g", fontpath.c_str(), opts[o], what.c_str(), cps_str(base.text, 12).c_str(), base.dir, base.ppm);
            cpu_budget_ms(60000);
            gr_face *fa = LIB(gr_make_file_face(fontpath.c_str(), opts[o])), *fb = LIB(gr_make_file_face(fontpath.c_str(), opts[o]));
            std::string a1 = run_probe(fa, var), a2 = run_probe(fa, base);       // variation first
            std::string b1 = run_probe(fb, base), b2 = run_probe(fb, var);       // base first
            st.add("swap_pairs");
            st.count("swap_by_kind", v.kind == 0 ? "feature" : v.kind == 1 ? "language" : v.kind == 2 ? "dir" : v.kind == 3 ? "size" : "text");
            if (a1 != b2) V("swap:differs", "the call with %s gives another segment as first call of a face than after the same call without it", what.c_str());
            if (a2 != b1) V("swap:differs", "the base call gives another segment after the call with %s than as first call of a face", what.c_str());
            if (a1 != a2) st.add("swap_pairs_where_the_variation_matters");
            if (a2 != "NULL\n" && base.text.size() >= 2) st.add("nontrivial");
            st.add("probes_compared", 2);
            LIBV(gr_face_destroy(fa));
            LIBV(gr_face_destroy(fb));
            cpu_budget_ms(0);
        }
        // ---- the same for label queries: every (feature label / setting label, language) query X with its successor Y in the enumeration and
        // with a random Y, in both orders on fresh faces (a name-table cursor or cache moved by one query shows in the other)
        {
            gr_face *fl = LIB(gr_make_file_face(fontpath.c_str(), 0));
            std::vector<LabelProbe> qs;
            unsigned nfl = gr_face_n_fref(fl);
            for (unsigned i = 0; i < nfl && qs.size() < 96; ++i) {
                const gr_feature_ref *fr = gr_face_fref(fl, uint16_t(i));
                unsigned nv = gr_fref_n_values(fr);
                for (int sidx = -1; sidx < int(nv) && sidx < 2; ++sidx) { LabelProbe q; q.feat = i; q.setting = sidx; q.lang = (i + unsigned(sidx + 1)) & 1 ? 0x409 : 0x40C; q.enc = int((i + unsigned(sidx + 1)) % 3); qs.push_back(q); }
            }
            LIBV(gr_face_destroy(fl));
            long ltotal = qs.size() < 2 ? 0 : std::min<long>(a.cases, (long(qs.size()) - a.shard + a.nshards - 1) / a.nshards);
            for (long k = 0; k < ltotal; ++k) {
                if (!a.runs(k)) continue;
                Rng r(a.case_seed(k) ^ 0x5bd1e995u);
                size_t xi = size_t((k * a.nshards + a.shard + long(a.seed % 9973) * 5) % long(qs.size()));
                size_t yi = r.chance(0.5) ? (xi + 1) % qs.size() : r.below(uint32_t(qs.size()));
                if (yi == xi) yi = (xi + 1) % qs.size();
                int o = int(r.below(2));
                set_case(k, "label-swap font=%s options=%u X=(feature %u setting %d lang %x) Y=(feature %u setting %d lang %x)", fontpath.c_str(), opts[o], qs[xi].feat, qs[xi].setting, qs[xi].lang, qs[yi].feat, qs[yi].setting, qs[yi].lang);
                gr_face *fa = LIB(gr_make_file_face(fontpath.c_str(), opts[o])), *fb = LIB(gr_make_file_face(fontpath.c_str(), opts[o]));
                std::string ax = run_label(fa, qs[xi]), ay = run_label(fa, qs[yi]);
                std::string by = run_label(fb, qs[yi]), bx = run_label(fb, qs[xi]);
                st.add("label_swap_pairs");
                if (ax != bx) V("swap:label-differs", "label query X answers [%s] as first query of a face and [%s] after query Y", ax.c_str(), bx.c_str());
                if (ay != by) V("swap:label-differs", "label query Y answers [%s] after query X and [%s] as first query of a face", ay.c_str(), by.c_str());
                if (ax != ay) st.add("label_swap_pairs_with_different_answers");
                LIBV(gr_face_destroy(fa));
                LIBV(gr_face_destroy(fb));
            }
        }
        st.mx("max_swap_variations_of_a_font", double(vars.size()));
        st.add("oracle_firings", double(g_viol));
        st.print();
        return 0;
    }
    for (long k = 0; k < a.cases; ++k) {
        if (!a.runs(k)) continue;
        Rng r(a.case_seed(k));
        int o = int(r.below(2));
        set_case(k, "history font=%s options=%u", fontpath.c_str(), opts[o]);
        cpu_budget_ms(60000);
        gr_face *live = LIB(gr_make_file_face(fontpath.c_str(), opts[o]));
        const bool hinted = (k & 1) != 0;
        gr_font *lfont = mk_lfont(live, hinted);
        std::vector<gr_segment *> pool;
        std::vector<gr_feature_val *> fvpool;
        std::vector<gr_font *> fontpool;
        std::string hist;
        long fired0 = g_rules_fired;
        for (int i = 0; i < nops; ++i) {
            int op = int(r.below(10));
            if (op < 4) {           // shape something else, keep it alive
                Probe q = draw_probe(r, live, rep, lines);
                if (r.chance(0.4)) {
                    // ... or a near miss of one of the probes: same text, but other feature values / language / direction / size.  State
                    // that leaks between calls is usually keyed on exactly the arguments that differ here.
                    q = probes[r.below(uint32_t(probes.size()))];
                    unsigned nf = gr_face_n_fref(live), nl = gr_face_n_languages(live);
                    switch (r.below(4)) {
                    case 0:
                        if (nf) {
                            if (q.sets.empty() || r.chance(0.3)) { q.fmode = 2; q.lang = 0; q.sets.clear(); for (int n = r.range(1, 3); n > 0; --n) q.sets.push_back({r.below(nf), uint16_t(r.below(3))}); }
                            else for (auto &st_ : q.sets) {
                                const gr_feature_ref *fr = gr_face_fref(live, uint16_t(st_.first));
                                unsigned nv = gr_fref_n_values(fr);
                                uint16_t other = uint16_t(nv ? gr_fref_value(fr, uint16_t(r.below(nv))) : r.below(3));
                                st_.second = other != st_.second ? other : uint16_t(st_.second ? 0 : 1);
                            }
                        }
                        break;
                    case 1: if (nl) { q.fmode = 1; q.sets.clear(); q.lang = gr_face_lang_by_index(live, uint16_t(r.below(nl))); } break;
                    case 2: q.dir ^= 1 << r.below(3); break;
                    default: q.ppm = q.ppm > 0 ? 0.0f : 23.0f; break;
                    }
                    st.add("op_shape_near_miss_of_probe");
                }
                const gr_font *fo = r.chance(0.5) ? lfont : (!fontpool.empty() && r.chance(0.5) ? fontpool[r.below(uint32_t(fontpool.size()))] : nullptr);
                Text tx;
                tx.set(kEnc[q.enc], q.text, false);
                gr_feature_val *fv = mkfeat(live, q);
                gr_segment *s = LIB(gr_make_seg(fo, live, 0, fv, kEnc[q.enc], tx.buf, q.text.size(), q.dir));
                if (fv) LIBV(gr_featureval_destroy(fv));
                if (s) { if (r.chance(0.5)) dump_seg(s, live, fo); pool.push_back(s); }
                hist += 'S';
                st.add("op_shape");
            } else if (op == 4 && !pool.empty()) {      // line break + justify a pooled segment
                gr_segment *s = pool[r.below(uint32_t(pool.size()))];
                std::vector<const gr_slot *> order;
                for (const gr_slot *p = gr_seg_first_slot(s); p; p = gr_slot_next_in_segment(p)) order.push_back(p);
                if (order.size() >= 2) {
                    if (r.chance(0.5)) LIBV(gr_slot_linebreak_before(const_cast<gr_slot *>(order[order.size() / 2])));
                    LIB(gr_seg_justify(s, order[0], r.chance(0.5) ? lfont : nullptr, double(200 + r.below(3000)), gr_justFlags(r.below(4)), nullptr, nullptr));
                }
                hist += 'J';
                st.add("op_justify");
            } else if (op == 5 && !pool.empty()) {      // destroy a random segment
                size_t i2 = r.below(uint32_t(pool.size()));
                LIBV(gr_seg_destroy(pool[i2]));
                pool[i2] = pool.back();
                pool.pop_back();
                hist += 'D';
                st.add("op_destroy");
            } else if (op == 6) {                        // label / feature queries: the whole report, or single labels in random order
                if (r.chance(0.5)) { std::string rp = face_report(live, r.chance(0.7)); hist += 'Q'; }
                else { for (int n = r.range(1, 3); n > 0; --n) run_label(live, draw_label(r, live)); hist += 'L'; }
                st.add("op_query");
            } else if (op == 7) {                        // feature values: create / clone / set / destroy
                unsigned nf = gr_face_n_fref(live);
                if (fvpool.size() < 6) {
                    gr_feature_val *fv = r.chance(0.5) || fvpool.empty() ? LIB(gr_face_featureval_for_lang(live, 0)) : LIB(gr_featureval_clone(fvpool[r.below(uint32_t(fvpool.size()))]));
                    if (nf && fv) gr_fref_set_feature_value(gr_face_fref(live, uint16_t(r.below(nf))), uint16_t(r.below(5)), fv);
                    if (fv) fvpool.push_back(fv);
                } else { LIBV(gr_featureval_destroy(fvpool.back())); fvpool.pop_back(); }
                hist += 'F';
                st.add("op_featureval");
            } else if (op == 8) {                        // fonts
                if (fontpool.size() < 4) fontpool.push_back(LIB(gr_make_font(float(1 + r.below(200)), live)));
                else { LIBV(gr_font_destroy(fontpool.back())); fontpool.pop_back(); }
                hist += 'N';
                st.add("op_font");
            } else {                                     // character support / info
                gr_face_is_char_supported(live, r.below(0x11000), 0);
                gr_face_info(live, 0);
                hist += 'C';
            }
            if ((i + 1) % every == 0 || i + 1 == nops) {
                size_t pi = r.below(uint32_t(probes.size()));
                set_case(k, "history font=%s options=%u ops=%s probe=%zu (text %s dir %d ppm %g)", fontpath.c_str(), opts[o], hist.c_str(), pi, cps_str(probes[pi].text, 10).c_str(), probes[pi].dir, probes[pi].ppm);
                std::string d = run_probe(live, probes[pi]);
                st.add("probes_compared");
                if (d != probes[pi].ref[o]) V("probe-differs", "after history %s the probe %zu differs from the same call on a fresh face", hist.c_str(), pi);
                else if (d != "NULL\n" && probes[pi].text.size() >= 2) st.add("nontrivial");
                {   // the same call through the history's long-lived font against a fresh identical font on the same face
                    gr_font *fresh = mk_lfont(live, hinted);
                    std::string a = run_probe_font(live, probes[pi], lfont), b = run_probe_font(live, probes[pi], fresh);
                    if (fresh) LIBV(gr_font_destroy(fresh));
                    st.add(hinted ? "font_probes_compared_hinted" : "font_probes_compared_plain");
                    if (a != b) V("font-probe-differs", "after history %s the probe %zu shaped with the long-lived %s font differs from the same call with a fresh identical font", hist.c_str(), pi, hinted ? "hinted" : "plain");
                }
                // repeating the call gives the same result again
                if (r.chance(0.2) && run_probe(live, probes[pi]) != d) V("repeat-differs", "the same call repeated immediately gives another segment");
                if (!lprobes.empty()) {
                    size_t li = r.below(uint32_t(lprobes.size()));
                    const LabelProbe &lp = lprobes[li];
                    set_case(k, "history font=%s options=%u ops=%s label probe=%zu (feature %u setting %d lang %x enc %d)", fontpath.c_str(), opts[o], hist.c_str(), li, lp.feat, lp.setting, lp.lang, 1 << lp.enc);
                    std::string l = run_label(live, lp);
                    st.add("label_probes_compared");
                    if (l != lp.ref[o]) V("label-differs", "after history %s the label query gives [%s], as first query of a fresh face it gives [%s]", hist.c_str(), l.c_str(), lp.ref[o].c_str());
                }
            }
        }
        std::string rp = face_report(live);
        st.add("reports_compared");
        if (rp != ref_report[o]) V("report-differs", "after history %s the face reports something else about itself than a fresh face", hist.c_str());
        for (auto s : pool) LIBV(gr_seg_destroy(s));
        for (auto v : fvpool) LIBV(gr_featureval_destroy(v));
        for (auto n : fontpool) LIBV(gr_font_destroy(n));
        LIBV(gr_font_destroy(lfont));
        LIBV(gr_face_destroy(live));
        cpu_budget_ms(0);
        st.add("histories");
        st.add("ops", double(nops));
        if (g_rules_fired > fired0) st.add("histories_with_rules");
        if (k % 97 == 0) printf("X {\"font\":%s,\"options\":%u,\"history\":\"%s\",\"probes\":%zu}\n", jstr(fontpath.substr(fontpath.rfind('/') + 1)).c_str(), opts[o], hist.c_str(), probes.size());
    }
    st.add("rules_fired", double(g_rules_fired));
    st.add("oracle_firings", double(g_viol));
    st.print();
    return 0;
}
