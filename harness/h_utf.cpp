// C11 / C12: UTF decoding exactness and text-consumption contract.
//   count8x  gr_count_unicode_characters(utf8) on ALL byte strings of length 0..3, each in its own exact-size allocation
//   count8s  boundary-structured UTF-8 strings of 4..8 bytes
//   count16 / count32   boundary alphabets + random units
//   shape    same scalar sequence in the three encodings -> identical dumps apart from gr_cinfo_base;
//            an ill-formed sequence shapes as U+FFFD and the characters after it are intact
//   nul      (C12) NUL-terminated text, buffer ends at the terminator, nChars over-estimates
// Oracle: an independent strict decoder (Unicode Table 3-7, paired surrogates, scalar values).
#include "common.hpp"
using namespace vf;
static Stats st;

// ---- strict reference decoders: return units consumed (>0) and set cp, or 0 if ill-formed at p
static int dec8(const uint8_t *p, size_t n, uint32_t &cp) {
    if (n == 0) return 0;
    uint8_t b = p[0];
    if (b < 0x80) { cp = b; return 1; }
    auto cont = [&](size_t i, uint8_t lo, uint8_t hi) { return i < n && p[i] >= lo && p[i] <= hi; };
    if (b >= 0xC2 && b <= 0xDF) { if (!cont(1, 0x80, 0xBF)) return 0; cp = (b & 0x1Fu) << 6 | (p[1] & 0x3Fu); return 2; }
    if (b >= 0xE0 && b <= 0xEF) {
        uint8_t lo = b == 0xE0 ? 0xA0 : 0x80, hi = b == 0xED ? 0x9F : 0xBF;
        if (!cont(1, lo, hi) || !cont(2, 0x80, 0xBF)) return 0;
        cp = (b & 0x0Fu) << 12 | (p[1] & 0x3Fu) << 6 | (p[2] & 0x3Fu);
        return 3;
    }
    if (b >= 0xF0 && b <= 0xF4) {
        uint8_t lo = b == 0xF0 ? 0x90 : 0x80, hi = b == 0xF4 ? 0x8F : 0xBF;
        if (!cont(1, lo, hi) || !cont(2, 0x80, 0xBF) || !cont(3, 0x80, 0xBF)) return 0;
        cp = (b & 0x07u) << 18 | (p[1] & 0x3Fu) << 12 | (p[2] & 0x3Fu) << 6 | (p[3] & 0x3Fu);
        return 4;
    }
    return 0;
}
static int dec16(const uint16_t *p, size_t n, uint32_t &cp) {
    if (n == 0) return 0;
    uint32_t u = p[0];
    if (u < 0xD800 || u > 0xDFFF) { cp = u; return 1; }
    if (u > 0xDBFF || n < 2 || p[1] < 0xDC00 || p[1] > 0xDFFF) return 0;
    cp = 0x10000 + ((u - 0xD800) << 10) + (p[1] - 0xDC00);
    return 2;
}
static int dec32(const uint32_t *p, size_t n, uint32_t &cp) {
    if (n == 0 || !is_scalar(p[0])) return 0;
    cp = p[0];
    return 1;
}
// The statement's exclusion "the buffer ends in a truncated multi-unit sequence", decided structurally and generously.
static bool tail_truncated8(const uint8_t *p, size_t n) {
    for (size_t back = 1; back <= 3 && back <= n; ++back) {
        uint8_t b = p[n - back];
        if (b >= 0xC0) {
            size_t announces = b >= 0xF0 ? 3 : b >= 0xE0 ? 2 : 1;
            return back - 1 < announces;
        }
        if (b < 0x80) return false;
    }
    return false;
}
static bool tail_truncated16(const uint16_t *p, size_t n) { return n && p[n - 1] >= 0xD800 && p[n - 1] <= 0xDBFF; }

template <class U, class DEC>
static void judge_count(gr_encform enc, const U *units, size_t n, bool tail_trunc, DEC dec, const char *what) {
    // exact-size heap copy
    U *buf = static_cast<U *>(malloc(n ? n * sizeof(U) : 1));
    if (n) memcpy(buf, units, n * sizeof(U));
    const void *err = reinterpret_cast<const void *>(uintptr_t(0x1));
    size_t got = gr_count_unicode_characters(enc, buf, buf + n, &err);
    st.add("count_calls");
    // reference: W = text before the first NUL
    size_t i = 0, wf = 0;
    bool ill = false;
    while (i < n && units[i] != 0) {
        uint32_t cp;
        int k = dec(units + i, n - i, cp);
        if (k == 0) { ill = true; break; }
        i += size_t(k);
        ++wf;
    }
    if (ill) st.add("illformed"); else st.add("wellformed");
    if (tail_trunc) st.add("tail_truncated_excluded");
    if (!ill && !tail_trunc) {
        if (got != wf || err != nullptr)
            V(fmt("count:wellformed:%s", what).c_str(), "units=%s count=%zu want=%zu err=%s", hexs(units, n * sizeof(U)).c_str(), got, wf, err ? "set" : "null");
    }
    const char *cls = "";
    if (ill) {
        if (sizeof(U) == 1 && i + 2 < n && units[i] == 0xED && units[i + 1] >= 0xA0 && units[i + 1] <= 0xBF && units[i + 2] >= 0x80 && units[i + 2] <= 0xBF) cls = ":surrogate";
        if (sizeof(U) == 4 && units[i] >= 0xD800 && units[i] <= 0xDFFF) cls = ":surrogate";
    }
    if (ill && err == nullptr)
        V(fmt("count:illformed-accepted:%s%s", what, cls).c_str(), "units=%s ill-formed at unit %zu but *pError==NULL (count=%zu)", hexs(units, n * sizeof(U)).c_str(), i, got);
    if (err != nullptr) {
        const U *e = static_cast<const U *>(err);
        if (!(e >= buf && e < buf + n)) V(fmt("count:error-pointer:%s", what).c_str(), "units=%s *pError outside the buffer (offset %td)", hexs(units, n * sizeof(U)).c_str(), e - buf);
        if (got > wf) V(fmt("count:overcount:%s", what).c_str(), "units=%s count=%zu > %zu well-formed characters before the first ill-formed sequence", hexs(units, n * sizeof(U)).c_str(), got, wf);
    }
    free(buf);
}
static void judge8(const uint8_t *p, size_t n) { judge_count<uint8_t>(gr_utf8, p, n, tail_truncated8(p, n), dec8, "utf8"); }

// UTF-8 surrogate encodings get their own key (known defect class, see DESIGN 7-6)
static const uint8_t kLeads[] = {0x00, 0x01, 0x41, 0x7F, 0x80, 0xBF, 0xC0, 0xC1, 0xC2, 0xDF, 0xE0, 0xE1, 0xEC, 0xED, 0xEE, 0xEF, 0xF0, 0xF1, 0xF3, 0xF4, 0xF5, 0xF7, 0xF8, 0xFB, 0xFC, 0xFE, 0xFF};
static const uint8_t kConts[] = {0x00, 0x41, 0x7F, 0x80, 0x8F, 0x90, 0x9F, 0xA0, 0xBF, 0xC0, 0xE0, 0xF0, 0xFF};

int main(int argc, char **argv) {
    Args a;
    a.parse(argc, argv);
    install_handlers();
    std::string part = a.get("part", "count8x");
    if (part == "count8x") {
        // case k < 65536: all 3-byte strings with prefix (k>>8, k&255); case 65536: every string of length 0..2
        for (long k = a.shard; k <= 65536; k += a.nshards) {
            long local = (k - a.shard) / a.nshards;
            if (!a.runs(local)) continue;
            uint8_t s[3];
            if (k == 65536) {
                set_case(local, "utf8 exhaustive: all strings of length 0..2");
                judge8(s, 0);
                for (int x = 0; x < 256; ++x) { s[0] = uint8_t(x); judge8(s, 1); }
                for (int x = 0; x < 65536; ++x) { s[0] = uint8_t(x >> 8); s[1] = uint8_t(x); judge8(s, 2); }
                continue;
            }
            s[0] = uint8_t(k >> 8); s[1] = uint8_t(k);
            set_case(local, "utf8 exhaustive: 3-byte strings with prefix %02x %02x", s[0], s[1]);
            for (int x = 0; x < 256; ++x) { s[2] = uint8_t(x); judge8(s, 3); }
            if (k % 8191 == 0) printf("X {\"part\":\"count8x\",\"prefix\":\"%02x%02x\",\"strings\":256}\n", s[0], s[1]);
        }
    } else if (part == "count8s") {
        for (long k = 0; k < a.cases; ++k) {
            if (!a.runs(k)) continue;
            Rng r(a.case_seed(k));
            uint8_t s[8];
            size_t n = size_t(r.range(4, 8));
            // a lead from the boundary list followed by boundary continuation patterns, embedded at a random position
            for (size_t i = 0; i < n; ++i) s[i] = r.chance(0.3) ? uint8_t(r.below(256)) : r.chance(0.5) ? kLeads[r.below(sizeof kLeads)] : kConts[r.below(sizeof kConts)];
            if (r.chance(0.5)) {        // plant one valid multi-byte character somewhere
                static const uint32_t cps[] = {0x80, 0x7FF, 0x800, 0xFFF, 0xD7FF, 0xE000, 0xFFFD, 0xFFFF, 0x10000, 0x10FFFF, 0x3FFFF};
                std::vector<uint8_t> e;
                enc_utf8(cps[r.below(sizeof cps / sizeof cps[0])], e);
                size_t at = r.below(uint32_t(n));
                for (size_t i = 0; i < e.size() && at + i < n; ++i) s[at + i] = e[i];
            }
            set_case(k, "utf8 structured %s", hexs(s, n).c_str());
            judge8(s, n);
            if (k % 4999 == 0) printf("X {\"part\":\"count8s\",\"bytes\":\"%s\"}\n", hexs(s, n).c_str());
        }
    } else if (part == "count16") {
        static const uint16_t al[] = {0x0000, 0x0001, 0x0041, 0x007F, 0x0080, 0x07FF, 0x0800, 0xD7FF, 0xD800, 0xD801, 0xDBFE, 0xDBFF, 0xDC00, 0xDC01, 0xDFFE,
                                      0xDFFF, 0xE000, 0xFFFD, 0xFFFE, 0xFFFF, 0x0300, 0x1000, 0x2028, 0xFEFF, 0xFF21, 0xD83D, 0xDE00, 0x0020, 0x00A0, 0x3000,
                                      0x8000, 0x7FFF, 0xC000, 0xDAAA, 0xDDDD, 0xD900, 0xDF00, 0x00FF, 0x0100, 0xFFFC};
        const long NA = long(sizeof al / sizeof al[0]);
        for (long k = 0; k < a.cases; ++k) {
            if (!a.runs(k)) continue;
            long g = k * a.nshards + a.shard;
            Rng r(a.case_seed(k));
            uint16_t s[8];
            size_t n;
            if (g < 1) n = 0;
            else if (g < 1 + NA) { n = 1; s[0] = al[g - 1]; }
            else if (g < 1 + NA + NA * NA) { long x = g - 1 - NA; n = 2; s[0] = al[x / NA]; s[1] = al[x % NA]; }
            else { n = size_t(r.range(3, 8)); for (size_t i = 0; i < n; ++i) s[i] = r.chance(0.7) ? al[r.below(uint32_t(NA))] : uint16_t(r.below(65536)); }
            set_case(k, "utf16 %s", hexs(s, n * 2).c_str());
            judge_count<uint16_t>(gr_utf16, s, n, tail_truncated16(s, n), dec16, "utf16");
            if (k % 4999 == 0) printf("X {\"part\":\"count16\",\"units_le_hex\":\"%s\"}\n", hexs(s, n * 2).c_str());
        }
    } else if (part == "count32") {
        static const uint32_t al[] = {0, 1, 0x41, 0x7F, 0x80, 0xD7FF, 0xD800, 0xDBFF, 0xDC00, 0xDFFF, 0xE000, 0xFFFD, 0xFFFF, 0x10000, 0x10FFFF, 0x110000, 0x7FFFFFFF,
                                      0x80000000u, 0xFFFFFFFFu, 0x1F600, 0x2FFFF, 0xE0001};
        const long NA = long(sizeof al / sizeof al[0]);
        for (long k = 0; k < a.cases; ++k) {
            if (!a.runs(k)) continue;
            long g = k * a.nshards + a.shard;
            Rng r(a.case_seed(k));
            uint32_t s[6];
            size_t n;
            if (g < NA) { n = 1; s[0] = al[g]; }
            else if (g < NA + NA * NA) { long x = g - NA; n = 2; s[0] = al[x / NA]; s[1] = al[x % NA]; }
            else { n = size_t(r.range(0, 6)); for (size_t i = 0; i < n; ++i) s[i] = r.chance(0.5) ? al[r.below(uint32_t(NA))] : r.chance(0.5) ? uint32_t(r.below(0x110000)) : uint32_t(r.next()); }
            set_case(k, "utf32 %s", hexs(s, n * 4).c_str());
            judge_count<uint32_t>(gr_utf32, s, n, false, dec32, "utf32");
            if (k % 4999 == 0) printf("X {\"part\":\"count32\",\"units_le_hex\":\"%s\"}\n", hexs(s, n * 4).c_str());
        }
    } else if (part == "shape" || part == "nul") {
        std::string fontpath = a.get("font");
        gr_face *f = gr_make_file_face(fontpath.c_str(), gr_face_default);
        if (!f) internal_fail("cannot load %s", fontpath.c_str());
        std::vector<uint32_t> rep = repertoire(f, 0x20000);
        static const uint32_t extra[] = {0xFFFE, 0xFFFF, 0x1FFFE, 0x10FFFF, 0xE000, 0x10000, 0xFDD0, 0x7F, 0x80, 0x7FF, 0x800};
        DumpOpts nob;
        nob.bases = false;
        const gr_encform encs[3] = {gr_utf8, gr_utf16, gr_utf32};
        for (long k = 0; k < a.cases; ++k) {
            if (!a.runs(k)) continue;
            Rng r(a.case_seed(k));
            std::vector<uint32_t> t = random_text(r, rep, part == "nul" ? 40 : 24, true);
            for (auto &c : t) { if (r.chance(0.05)) c = extra[r.below(sizeof extra / sizeof extra[0])]; if (c == 0 || !is_scalar(c)) c = 0x41; }
            int dir = int(r.below(2));
            if (part == "nul") {
                // multi-unit character last so that the decoder would run furthest
                if (r.chance(0.5)) t.push_back(r.chance(0.5) ? 0x10FFFF : 0xFFFD);
                static const long over[] = {0, 1, 2, 7, 64, -1 /* code-unit count */, 4096, 65536};
                for (int e = 0; e < 3; ++e) {
                    Text tx;
                    tx.set(encs[e], t, true);
                    size_t units = tx.bytes / (e == 0 ? 1 : e == 1 ? 2 : 4) - 1;
                    long ov = over[r.below(sizeof over / sizeof over[0])];
                    size_t nch = ov < 0 ? units : t.size() + size_t(ov);
                    set_case(k, "nul font=%s enc=%d dir=%d nChars=%zu true=%zu text=%s", fontpath.c_str(), 1 << e, dir, nch, t.size(), cps_str(t, 24).c_str());
                    gr_segment *s = gr_make_seg(nullptr, f, 0, nullptr, encs[e], tx.buf, nch, dir);
                    st.add("nul_segs");
                    if (nch > t.size()) st.add("nul_overestimates");
                    if (!s) { st.add("null_segments"); continue; }
                    if (gr_seg_n_cinfo(s) != t.size())
                        V("ncinfo", "enc=%d nChars=%zu: gr_seg_n_cinfo=%u but %zu characters precede the NUL", 1 << e, nch, gr_seg_n_cinfo(s), t.size());
                    else {
                        StructReport sr;
                        walk_struct(s, t.size(), 0, f, nullptr, sr);
                        for (auto &m : sr.c03) V("struct", "%s", m.c_str());
                        for (auto &m : sr.c05) V("struct", "%s", m.c_str());
                        for (unsigned i = 0; i < t.size(); ++i) {
                            const gr_char_info *ci = gr_seg_cinfo(s, i);
                            if (gr_cinfo_unicode_char(ci) != t[i] || gr_cinfo_base(ci) != tx.unit_off[i]) { V("cinfo", "char %u is %x@%zu, expected %x@%zu", i, gr_cinfo_unicode_char(ci), gr_cinfo_base(ci), t[i], tx.unit_off[i]); break; }
                        }
                        // the over-estimated call must give the same segment as the exact call
                        if (nch != t.size()) {
                            gr_segment *x = gr_make_seg(nullptr, f, 0, nullptr, encs[e], tx.buf, t.size(), dir);
                            if (dump_seg(x, f, nullptr) != dump_seg(s, f, nullptr)) V("differs", "enc=%d nChars=%zu gives another segment than nChars=%zu", 1 << e, nch, t.size());
                            if (x) gr_seg_destroy(x);
                        }
                    }
                    gr_seg_destroy(s);
                }
                // an ill-formed tail directly before the terminator (truncated UTF-8 sequence / lone surrogate): the decoder must not
                // take the NUL for part of the sequence and run on; nChars over-estimates
                for (int e = 0; e < 2; ++e) {
                    Text tx;
                    tx.set(encs[e], t, true);
                    size_t unit = e == 0 ? 1 : 2;
                    std::vector<uint8_t> raw(static_cast<uint8_t *>(tx.buf), static_cast<uint8_t *>(tx.buf) + tx.bytes - unit);
                    size_t badunits;
                    std::string badname;
                    if (e == 0) {
                        static const uint8_t bads[][4] = {{1, 0xC2}, {1, 0xE1}, {2, 0xE1, 0x80}, {2, 0xE2, 0x82}, {1, 0xF1}, {2, 0xF1, 0x80}, {3, 0xF1, 0x80, 0x80}, {2, 0xF0, 0x9F}, {1, 0xC3}, {1, 0xF4}};
                        const uint8_t *b = bads[r.below(sizeof bads / sizeof bads[0])];
                        for (int i = 0; i < b[0]; ++i) raw.push_back(b[1 + i]);
                        badunits = b[0];
                        badname = hexs(b + 1, b[0]);
                    } else {
                        uint16_t u = r.chance(0.5) ? uint16_t(0xD800 + r.below(0x400)) : uint16_t(0xDC00 + r.below(0x400));
                        raw.push_back(uint8_t(u)); raw.push_back(uint8_t(u >> 8));
                        badunits = 1;
                        badname = fmt("%04x", u);
                    }
                    for (size_t i = 0; i < unit; ++i) raw.push_back(0);
                    void *buf = malloc(raw.size());
                    memcpy(buf, raw.data(), raw.size());
                    static const size_t more[] = {0, 1, 2, 7, 64, 4096};
                    size_t nch = t.size() + badunits + more[r.below(6)];
                    set_case(k, "nul-illformed-tail font=%s enc=%d dir=%d nChars=%zu true=%zu+bad(%s) text=%s", fontpath.c_str(), 1 << e, dir, nch, t.size(), badname.c_str(), cps_str(t, 24).c_str());
                    gr_segment *s = gr_make_seg(nullptr, f, 0, nullptr, encs[e], buf, nch, dir);
                    st.add("nul_illformed_tail_segs");
                    if (s) {
                        unsigned nc = gr_seg_n_cinfo(s);
                        if (nc < t.size() + 1 || nc > t.size() + badunits)
                            V("ncinfo:illformed-tail", "enc=%d tail=%s nChars=%zu: gr_seg_n_cinfo=%u, %zu characters + an ill-formed tail of %zu unit(s) precede the NUL", 1 << e, badname.c_str(), nch, nc, t.size(), badunits);
                        else {
                            bool ok = true;
                            for (size_t i = 0; i < t.size() && ok; ++i) ok = gr_cinfo_unicode_char(gr_seg_cinfo(s, unsigned(i))) == t[i];
                            for (size_t i = t.size(); i < nc && ok; ++i) ok = gr_cinfo_unicode_char(gr_seg_cinfo(s, unsigned(i))) == 0xFFFD;
                            if (!ok) V("cinfo:illformed-tail", "enc=%d tail=%s: characters are not the text followed by U+FFFD", 1 << e, badname.c_str());
                        }
                        gr_seg_destroy(s);
                    } else st.add("null_segments");
                    free(buf);
                }
                if (k % 499 == 0) printf("X {\"part\":\"nul\",\"font\":%s,\"text\":\"%s\",\"dir\":%d}\n", jstr(fontpath).c_str(), cps_str(t, 16).c_str(), dir);
                continue;
            }
            // --- encoding equivalence
            std::string d[3];
            for (int e = 0; e < 3; ++e) {
                Text tx;
                tx.set(encs[e], t, false);
                set_case(k, "shape-equiv font=%s enc=%d dir=%d text=%s", fontpath.c_str(), 1 << e, dir, cps_str(t, 24).c_str());
                // count must agree with the scalar count
                const void *err = nullptr;
                size_t cnt = gr_count_unicode_characters(encs[e], tx.buf, tx.end(), &err);
                if (cnt != t.size() || err) V("count:wellformed:text", "enc=%d count=%zu want=%zu err=%s text=%s", 1 << e, cnt, t.size(), err ? "set" : "null", cps_str(t).c_str());
                gr_segment *s = gr_make_seg(nullptr, f, 0, nullptr, encs[e], tx.buf, t.size(), dir);
                d[e] = dump_seg(s, f, nullptr, nob);
                if (s) {
                    for (unsigned i = 0; i < gr_seg_n_cinfo(s) && i < t.size(); ++i) {
                        const gr_char_info *ci = gr_seg_cinfo(s, i);
                        if (gr_cinfo_unicode_char(ci) != t[i]) { V("shape:decoded", "enc=%d char %u decoded as %x, expected %x", 1 << e, i, gr_cinfo_unicode_char(ci), t[i]); break; }
                        if (gr_cinfo_base(ci) != tx.unit_off[i]) { V("shape:base", "enc=%d char %u base %zu, expected %zu", 1 << e, i, gr_cinfo_base(ci), tx.unit_off[i]); break; }
                    }
                    gr_seg_destroy(s);
                }
                st.add("equiv_segs");
            }
            if (d[0] != d[1] || d[0] != d[2]) V("shape:encodings-differ", "dir=%d text=%s utf8/16/32 dumps differ", dir, cps_str(t).c_str());
            if (d[0] != "NULL\n" && t.size() >= 2) st.add("equiv_nontrivial");
            // --- ill-formed sequence in the middle: shapes as U+FFFD, later characters intact
            {
                size_t cut = t.empty() ? 0 : r.below(uint32_t(t.size() + 1));
                std::vector<uint32_t> s1(t.begin(), t.begin() + long(cut)), s2(t.begin() + long(cut), t.end());
                // the character after the bad sequence must restart decoding unambiguously
                if (s2.empty() || s2[0] >= 0x80) s2.insert(s2.begin(), 0x41);
                int e = int(r.below(3));
                std::vector<uint8_t> raw;
                size_t badunits = 0, unit = e == 0 ? 1 : e == 1 ? 2 : 4;
                auto put = [&](uint32_t c) {
                    if (e == 0) enc_utf8(c, raw);
                    else if (e == 1) { std::vector<uint16_t> o; enc_utf16(c, o); for (uint16_t u : o) { raw.push_back(uint8_t(u)); raw.push_back(uint8_t(u >> 8)); } }
                    else for (int i = 0; i < 4; ++i) raw.push_back(uint8_t(c >> (8 * i)));
                };
                for (uint32_t c : s1) put(c);
                std::string badname;
                if (e == 0) {
                    static const uint8_t bads[][4] = {{1, 0x80}, {1, 0xBF}, {1, 0xC2}, {1, 0xE1}, {2, 0xE1, 0x80}, {1, 0xF1}, {2, 0xF1, 0x80}, {3, 0xF1, 0x80, 0x80},
                                                      {2, 0xC0, 0x80}, {2, 0xC1, 0xBF}, {3, 0xE0, 0x80, 0x80}, {3, 0xE0, 0x9F, 0xBF}, {1, 0xF8}, {1, 0xFF}, {1, 0xFE}};
                    const uint8_t *b = bads[r.below(sizeof bads / sizeof bads[0])];
                    for (int i = 0; i < b[0]; ++i) raw.push_back(b[1 + i]);
                    badunits = b[0];
                    badname = hexs(b + 1, b[0]);
                } else if (e == 1) {
                    uint16_t u = r.chance(0.5) ? uint16_t(0xDC00 + r.below(0x400)) : uint16_t(0xD800 + r.below(0x400));   // lone low / lone high followed by ASCII
                    raw.push_back(uint8_t(u)); raw.push_back(uint8_t(u >> 8));
                    badunits = 1;
                    badname = fmt("%04x", u);
                } else {
                    uint32_t u = r.chance(0.5) ? 0x110000 + r.below(0x1000) : 0x80000000u + uint32_t(r.next() >> 34);
                    for (int i = 0; i < 4; ++i) raw.push_back(uint8_t(u >> (8 * i)));
                    badunits = 1;
                    badname = fmt("%08x", u);
                }
                for (uint32_t c : s2) put(c);
                size_t nunits = raw.size() / unit;
                for (size_t i = 0; i < unit; ++i) raw.push_back(0);      // terminator
                void *buf = malloc(raw.size());
                memcpy(buf, raw.data(), raw.size());
                set_case(k, "shape-illformed font=%s enc=%d dir=%d bad=%s after %zu chars", fontpath.c_str(), 1 << e, dir, badname.c_str(), s1.size());
                // nChars: an upper bound (code units); the library stops at the NUL (C12 contract)
                gr_segment *s = gr_make_seg(nullptr, f, 0, nullptr, encs[e], buf, nunits, dir);
                st.add("illformed_segs");
                st.count("illformed_by_enc", std::to_string(1 << e));
                if (s) {
                    unsigned nc = gr_seg_n_cinfo(s);
                    size_t kbad = nc >= s1.size() + s2.size() ? nc - s1.size() - s2.size() : 0;
                    if (nc < s1.size() + s2.size() + 1 || kbad > badunits)
                        V("shape:illformed-count", "enc=%d bad=%s: %u char-infos for %zu+bad(%zu units)+%zu", 1 << e, badname.c_str(), nc, s1.size(), badunits, s2.size());
                    else {
                        bool ok = true;
                        for (size_t i = 0; i < s1.size() && ok; ++i) ok = gr_cinfo_unicode_char(gr_seg_cinfo(s, unsigned(i))) == s1[i];
                        if (!ok) V("shape:illformed-before", "enc=%d bad=%s characters before the ill-formed sequence changed", 1 << e, badname.c_str());
                        ok = true;
                        for (size_t i = 0; i < kbad && ok; ++i) ok = gr_cinfo_unicode_char(gr_seg_cinfo(s, unsigned(s1.size() + i))) == 0xFFFD;
                        if (!ok) V("shape:illformed-not-fffd", "enc=%d bad=%s ill-formed sequence not decoded as U+FFFD", 1 << e, badname.c_str());
                        ok = true;
                        for (size_t i = 0; i < s2.size() && ok; ++i) ok = gr_cinfo_unicode_char(gr_seg_cinfo(s, unsigned(s1.size() + kbad + i))) == s2[i];
                        if (!ok) V("shape:illformed-derailed", "enc=%d bad=%s characters after the ill-formed sequence are not intact", 1 << e, badname.c_str());
                        // same segment as the well-formed text with U+FFFD in place of the bad sequence
                        std::vector<uint32_t> w(s1);
                        for (size_t i = 0; i < kbad; ++i) w.push_back(0xFFFD);
                        w.insert(w.end(), s2.begin(), s2.end());
                        Text tw;
                        tw.set(gr_utf32, w, false);
                        gr_segment *x = gr_make_seg(nullptr, f, 0, nullptr, gr_utf32, tw.buf, w.size(), dir);
                        if (dump_seg(x, f, nullptr, nob) != dump_seg(s, f, nullptr, nob)) V("shape:illformed-differs", "enc=%d bad=%s does not shape like U+FFFD", 1 << e, badname.c_str());
                        if (x) gr_seg_destroy(x);
                    }
                    gr_seg_destroy(s);
                } else st.add("null_segments");
                free(buf);
            }
            if (k % 499 == 0) printf("X {\"part\":\"shape\",\"font\":%s,\"text\":\"%s\",\"dir\":%d}\n", jstr(fontpath).c_str(), cps_str(t, 16).c_str(), dir);
        }
        gr_face_destroy(f);
    } else internal_fail("unknown part");
    st.add("oracle_firings", double(g_viol));
    st.print();
    return 0;
}
