// libFuzzer target (thorough tier of C14): input = 2 bytes announced-size selector + an LZ4 block.
#include "common.hpp"
#include "inc/Decompressor.h"
extern "C" int LLVMFuzzerTestOneInput(const uint8_t *data, size_t size) {
    if (size < 3) return 0;
    size_t osz = size_t(data[0]) << 8 | data[1];
    size_t n = size - 2;
    uint8_t *in = static_cast<uint8_t *>(malloc(n)), *out = static_cast<uint8_t *>(malloc(osz ? osz : 1));
    memcpy(in, data + 2, n);
    int r = lz4::decompress(in, n, out, osz);
    if (r > int(osz)) { fprintf(stderr, "FUZZ-ORACLE lz4 returned %d > announced %zu\n", r, osz); abort(); }
    free(in);
    free(out);
    return 0;
}
