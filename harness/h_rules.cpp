// C06 executor: shapes glyph strings with a synthesised GDL-lite font and prints, per input line, a JSON record with the
// engine's result (gids, attachment parents, associations, original, slot attributes, design-unit origins, segment
// advance, char-info before/after) and the rule-firing trace from the H2 hook (pass, rule, cursor position).
// The reference interpreter (vlib/fontlib/ref.py) and the comparison live in the orchestrator.
//   stdin lines:  <dir> <feat0> <feat1> <utf8 text>
#include "common.hpp"
using namespace vf;
static std::map<const void *, unsigned> g_pass_index;
static std::string g_trace;
static long g_fired = 0, g_contested = 0, g_first_failed = 0;
extern "C" void gr_verif_pass_begin(const void *, unsigned int pass_index, const void *pass) { g_pass_index[pass] = pass_index; }
extern "C" void gr_verif_rule_fired(const void *pass, unsigned int rule, const void *, const void *cursor, unsigned int ncand, unsigned int nfailed) {
    int pos = 0;
    for (const gr_slot *p = gr_slot_prev_in_segment(static_cast<const gr_slot *>(cursor)); p; p = gr_slot_prev_in_segment(p)) ++pos;
    auto it = g_pass_index.find(pass);
    appendf(g_trace, "%s[%d,%u,%d]", g_trace.empty() ? "" : ",", it == g_pass_index.end() ? -1 : int(it->second), rule, pos);
    ++g_fired;
    if (ncand >= 2) ++g_contested;
    if (nfailed >= 1) ++g_first_failed;
}
int main(int argc, char **argv) {
    Args a;
    a.parse(argc, argv);
    install_handlers();
    int nuser = int(a.geti("nuser", 2));
    gr_face *f = gr_make_file_face(a.get("font").c_str(), unsigned(a.geti("opt", 0)));
    if (!f) { puts("NOFACE"); return 0; }
    unsigned nf = gr_face_n_fref(f);
    static char line[4096];
    long k = 0;
    while (fgets(line, sizeof line, stdin)) {
        size_t l = strlen(line);
        while (l && (line[l - 1] == '\n' || line[l - 1] == '\r')) line[--l] = 0;
        int dir = 0, f0 = 0, f1 = 0, used = 0;
        if (sscanf(line, "%d %d %d %n", &dir, &f0, &f1, &used) < 3) { puts("BADLINE"); continue; }
        const char *text = line + used;
        size_t n = strlen(text);
        set_case(k++, "rules font=%s dir=%d feats=%d,%d text=%s", a.get("font").c_str(), dir, f0, f1, text);
        gr_feature_val *fv = gr_face_featureval_for_lang(f, 0);
        if (nf > 0) gr_fref_set_feature_value(gr_face_fref(f, 0), uint16_t(f0), fv);
        if (nf > 1) gr_fref_set_feature_value(gr_face_fref(f, 1), uint16_t(f1), fv);
        g_trace.clear();
        g_fired = g_contested = g_first_failed = 0;
        gr_segment *s = gr_make_seg(nullptr, f, 0, fv, gr_utf8, text, n, dir);
        gr_featureval_destroy(fv);
        std::string o;
        if (!s) { printf("{\"null\":true,\"trace\":[%s],\"fired\":%ld,\"contested\":%ld,\"first_failed\":%ld}\n", g_trace.c_str(), g_fired, g_contested, g_first_failed); continue; }
        std::map<const gr_slot *, int> pos;
        int i = 0;
        for (const gr_slot *p = gr_seg_first_slot(s); p; p = gr_slot_next_in_segment(p)) pos[p] = i++;
        o = "{\"slots\":[";
        bool first = true;
        for (const gr_slot *p = gr_seg_first_slot(s); p; p = gr_slot_next_in_segment(p)) {
            const gr_slot *par = gr_slot_attached_to(p);
            appendf(o, "%s{\"par\":%d,\"gid\":%u,\"before\":%d,\"after\":%d,\"orig\":%d,\"advx\":%d,\"sx\":%d,\"sy\":%d,\"user\":[", first ? "" : ",", par ? pos[par] : -1, gr_slot_gid(p), gr_slot_before(p),
                    gr_slot_after(p), gr_slot_original(p), gr_slot_attr(p, s, gr_slatAdvX, 0), gr_slot_attr(p, s, gr_slatShiftX, 0), gr_slot_attr(p, s, gr_slatShiftY, 0));
            for (int u = 0; u < nuser; ++u) appendf(o, "%s%d", u ? "," : "", gr_slot_attr(p, s, gr_slatUserDefn, uint8_t(u)));
            appendf(o, "],\"x\":%.9g,\"y\":%.9g}", gr_slot_origin_X(p), gr_slot_origin_Y(p));
            first = false;
        }
        appendf(o, "],\"adv\":%.9g,\"cinfo\":[", gr_seg_advance_X(s));
        for (unsigned c = 0; c < gr_seg_n_cinfo(s); ++c) appendf(o, "%s[%d,%d]", c ? "," : "", gr_cinfo_before(gr_seg_cinfo(s, c)), gr_cinfo_after(gr_seg_cinfo(s, c)));
        appendf(o, "],\"fired\":%ld,\"contested\":%ld,\"first_failed\":%ld,\"trace\":[", g_fired, g_contested, g_first_failed);
        o += g_trace;
        o += "]}";
        puts(o.c_str());
        gr_seg_destroy(s);
    }
    gr_face_destroy(f);
    return 0;
}
